#!/bin/bash
# offline, idempotent: make sure hypothesis (and atheris for thorough fuzz tiers) are importable by /venv/bin/python
set -e
cd "$(dirname "$0")"
export PIP_NO_INDEX=1
/venv/bin/python -c "import hypothesis" 2>/dev/null || /venv/bin/pip install -q --no-index --find-links /opt/veriftools/wheels hypothesis
mkdir -p .deps evidence replays
if ! PYTHONPATH=.deps /venv/bin/python -c "import atheris" 2>/dev/null; then
  /venv/bin/pip install -q --no-index --find-links /opt/veriftools/wheels --target .deps atheris 2>/dev/null || echo "atheris not installable; thorough fuzz tiers fall back to hypothesis only"
fi
echo setup ok
