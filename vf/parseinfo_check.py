"""C12 (b): parseinfo on dict ASTs and model nodes against RefPEG's trace of rule invocations."""
from __future__ import annotations

from vf import gen, tu
from vf.core import hyp_run, reset_tatsu_state, watchdog, CaseTimeout
from vf.gast import grammar_text, shrink_rules, tup
from vf.refpeg import Ref


def my_line(text, pos):
    """line number of offset pos (LF, CR, CRLF end a line)"""
    n = 0
    i = 0
    while i < pos:
        c = text[i]
        if c == '\r' and i + 1 < len(text) and text[i + 1] == '\n':
            if i + 1 < pos:
                n += 1
                i += 2
                continue
            # pos sits between CR and LF: same line
            i += 1
            continue
        if c in '\r\n':
            n += 1
        i += 1
    return n


COMMENTS = r'\(\*(?:.|\n)*?\*\)'
EOLC = r'#[^\n]*'
COMMENT_DIRECTIVES = [('comments', '?"' + COMMENTS + '"'), ('eol_comments', '/' + EOLC + '/')]


def rule_dicts(rules, types, deco=None):
    out = []
    for n, x in rules:
        d = dict(name=n, exp=x)
        if n in types:
            d['params'] = (types[n],)
        if deco and n in deco:
            d['decorators'] = tuple(deco[n])
        out.append(d)
    return out


def comment_layout(rnd, lexs):
    """lexemes joined by runs of blanks, block comments and end-of-line comments in every order"""
    runs = [' ', '\n', '  ', '(* c *)', '# e\n', '(* c *)# e\n', '# e\n(* c *)', ' (* a\nb *) # e\n  ', '(* c *) (* d *)', '# e\n# f\n']
    out = rnd.choice(['', ''] + runs)
    for i, lx in enumerate(lexs):
        if i and not lx.glue:
            out += rnd.choice(runs)
        out += lx.text
    return out + rnd.choice(['', '\n', ' # e'])


def collect(x, out, depth=0):
    """all dict-like ASTs and nodes reachable in a parse result"""
    from tatsu.objectmodel import Node
    if depth > 100:
        return
    if isinstance(x, dict):
        out.append(x)
        for k, v in x.items():
            if k not in ('parseinfo', '__parseinfo__'):
                collect(v, out, depth + 1)
    elif isinstance(x, (list, tuple)):
        for v in x:
            collect(v, out, depth + 1)
    elif isinstance(x, Node):
        out.append(x)
        for k, v in vars(x).items():
            if not k.startswith('_') and k not in ('parseinfo', 'ctx'):
                collect(v, out, depth + 1)


def check(rules, types, start, text, asmodel, buffer=False, model=None, deco=None, comments=False):
    """returns (detail|None, info)"""
    from tatsu.objectmodel import Node
    rules = [(n, tup(x)) for n, x in rules]
    rd = rule_dicts(rules, types, deco)
    if model is None:
        try:
            model = tu.compile_grammar(grammar_text(rd, COMMENT_DIRECTIVES if comments else []))
        except Exception as e:
            return dict(bucket=f'compile:{type(e).__name__}', oracle='printed grammar compiles', observed=str(e)[:300]), {}
    class Mark:
        def __init__(self, typ, value):
            self.typ = typ
            self.value = value

    def actions(rule, value, params, kwparams):
        return Mark(types[rule], value) if asmodel and rule in types else value
    ref = Ref(rules, text, actions=actions, **(dict(comments=COMMENTS, eol_comments=EOLC) if comments else {}))
    r = ref.parse(start)
    info = dict(ref=r[0], flags=sorted(ref.flags), nodes=0, nontrivial=False)
    if r[0] != 'ok' or set(ref.flags) & {'U2', 'U7', 'U11', 'U12', 'LR'}:
        return None, info
    try:
        with watchdog(10):
            if buffer:
                from tatsu.input.buffer import Buffer
                res = model.parse(Buffer(text, config=model.config), start=start, parseinfo=True, asmodel=asmodel)
            else:
                res = model.parse(text, start=start, parseinfo=True, asmodel=asmodel)
    except CaseTimeout:
        return dict(bucket='no-result', oracle='parse terminates', observed='no result in 10 s'), info
    except Exception as e:
        return dict(bucket=f'parse:{type(e).__name__}', oracle='reference accepts; parse with parseinfo=True must too',
                    observed=str(e)[:300]), info
    found = []
    collect(res, found)
    info['nodes'] = len(found)
    trace = {}
    for name, p, q, v in ref.trace:
        trace.setdefault((name, p, q), []).append(v)
    for obj in found:
        pi = obj.parseinfo if isinstance(obj, Node) else obj.get('__parseinfo__', obj.get('parseinfo')) if 'parseinfo' in obj or '__parseinfo__' in obj else None
        what = 'node' if isinstance(obj, Node) else 'dict'
        if pi is None:
            return dict(bucket=f'{what}:missing', oracle='every dict-like AST / node carries parseinfo when parseinfo=True',
                        observed=repr(tu.canon(obj))[:200]), info
        key = (pi.rule, pi.pos, pi.endpos)
        if pi.rule not in dict(rules):
            return dict(bucket=f'{what}:rule-unknown', oracle='parseinfo.rule names a rule of the grammar', observed=key), info
        if key not in trace:
            cands = sorted(k for k in trace if k[0] == pi.rule)
            return dict(bucket=f'{what}:span', oracle='(rule, pos, endpos) is an invocation of that rule in the reference trace '
                        '(pos after leading whitespace, endpos at the end of the match)', observed=key, reference_invocations=cands[:8]), info
        if what == 'dict' and not asmodel:
            mine = tu.canon(obj)
            # (values are C01's subject; where a rule's value is an "open" list the known finding F-C01-a - such a value is spliced into its
            # caller - would be re-reported here as a value difference: not judged, as in C06/C09/C11)
            if not ref.flags and not ref.openlist_values and not any(tu.canon(v) == mine for v in trace[key]):
                return dict(bucket='dict:value', oracle='the rule invocation named by parseinfo returned this value',
                            observed=mine, reference=[tu.canon(v) for v in trace[key]][:3], key=key), info
        # (U1: a rule with names whose taken option bound none of them — whether it returns the AST or the value is not documented)
        if what == 'node' and 'U1' not in ref.flags and not any(isinstance(v, Mark) and v.typ == type(obj).__name__ for v in trace[key]):
            return dict(bucket='node:rule', oracle='the rule invocation named by the node\'s parseinfo returned a node of this class '
                        '(the typed rule itself or a rule that passes it on)', observed=(key, type(obj).__name__),
                        reference=[(v.typ if isinstance(v, Mark) else repr(v)[:40]) for v in trace[key]][:4]), info
        if pi.pos < len(text):
            ml = my_line(text, pi.pos)
            if pi.line != ml:
                return dict(bucket=f'{what}:line', oracle='parseinfo.line is the line of the start offset', expected=ml, observed=pi.line, key=key), info
        if isinstance(obj, Node) and pi.pos < len(text):
            try:
                if obj.line != my_line(text, pi.pos):
                    return dict(bucket='node:line-accessor', oracle='node.line is the line of the start offset', expected=my_line(text, pi.pos), observed=obj.line), info
                if obj.text != text[pi.pos:pi.endpos]:
                    return dict(bucket='node:text-accessor', oracle='node.text is the consumed text', expected=text[pi.pos:pi.endpos], observed=obj.text), info
            except Exception as e:
                return dict(bucket=f'node:accessor:{type(e).__name__}', oracle='node.line / node.text return', observed=repr(e)), info
        if pi.pos > 0 and (text[:pi.pos].strip() != text[:pi.pos] or my_line(text, pi.pos) > 0):
            info['nontrivial'] = True
    return None, info


_counter = [0]


def run_shard(sh, n):
    gcfg = gen.GenCfg(cut=False, lookahead=True, skipto=False)

    def passthrough_rules(rnd):
        """a rule that hands on another rule's dict/node as its own value, inside an alternative that fails later, before another alternative
        asks for the same sub-rule at the same position (so the value comes back from the memos)"""
        name = ('seq', (('named', 'id', ('pat', '[a-c]+')),)) if rnd.random() < 0.7 else ('seq', (('named', 'id', ('pat', '[a-c]+')), ('opt', ('named', 'w', ('tok', '+')))))
        lv = rnd.choice([('ovr', ('call', 'name')), ('call', 'name'), ('seq', (('ovr', ('call', 'name')), ('star', ('tok', ',')))), ('grp', ('call', 'name'))])
        first = ('seq', (('named', 'l', ('call', 'lv')), ('tok', 'b'), ('named', 'r', ('call', 'name'))))
        second = rnd.choice([('seq', (('named', 'f', ('call', 'name')), ('tok', 'a'))), ('call', 'name'), ('seq', (('call', 'name'), ('tok', 'a')))])
        third = ('named', 'x', ('call', 'lv'))
        stmt = ('alt', (first, second, third)) if rnd.random() < 0.6 else ('alt', (first, second))
        rules = [('stmt', ('seq', (('star', ('tok', ',')), stmt)) if rnd.random() < 0.3 else stmt), ('lv', lv), ('name', name)]
        return rules

    def body(rnd):
        reset_tatsu_state()
        passthrough = rnd.random() < 0.2
        if passthrough:
            rules = passthrough_rules(rnd)
        else:
            rules = gen.gen_rules(rnd, gcfg)
            # make sure names exist: add a named element to some rule bodies
            rules2 = []
            for nm, x in rules:
                if rnd.random() < 0.6:
                    x = ('seq', (('named', 'w', ('tok', rnd.choice(['a', 'b', '+']))), x)) if rnd.random() < 0.5 else ('seq', (x, ('named', 'w', ('tok', rnd.choice(['a', 'b', '+'])))))
                rules2.append((nm, x))
            rules = rules2
        asmodel = rnd.random() < 0.4
        types = {}
        if asmodel:
            _counter[0] += 1
            for i, (nm, _) in enumerate(rules):
                if rnd.random() < 0.7:
                    types[nm] = f'Pi{sh.index}x{_counter[0]}x{i}'
        start = rules[0][0]
        # @nostak rules are left out of the call stack shown in traces and errors; their parseinfo is still their own
        deco = {nm: ['nostak'] for nm, _ in rules[1:] if rnd.random() < 0.25}
        comments = rnd.random() < 0.35
        try:
            model = tu.compile_grammar(grammar_text(rule_dicts(rules, types, deco), COMMENT_DIRECTIVES if comments else []))
        except Exception as e:
            sh.fail(f'compile:{type(e).__name__}', dict(kind='parseinfo', rules=rules, types=types, start=start, input='', asmodel=asmodel, deco=deco, comments=comments),
                    dict(bucket=f'compile:{type(e).__name__}', observed=str(e)[:300]))
            return
        rmap = dict(rules)
        gtext = grammar_text(rule_dicts(rules, types, deco), COMMENT_DIRECTIVES if comments else [])
        for _ in range(5):
            lx = gen.derive(rnd, rmap, rmap[start])
            if comments:
                text = comment_layout(rnd, lx)
            else:
                text = rnd.choice(['', ' ', '\n', '\n\n  ', '\r\n']) + gen.layout(rnd, lx, rnd.choice(['varied', 'varied', 'base'])) + rnd.choice(['', '\n', ' '])
            buffer = rnd.random() < 0.3
            d, info = check(rules, types, start, text, asmodel, buffer, model, deco, comments)
            sh.case(('pi', gtext, text, asmodel, buffer), info.get('nontrivial', False),
                    ['parseinfo', 'pi:asmodel' if asmodel else 'pi:ast', 'pi:buffer' if buffer else 'pi:textlines', f'pi:ref:{info.get("ref")}',
                     'pi:with-nodes' if info.get('nodes') else 'pi:no-dict-or-node'] + (['pi:nostak-rules'] if deco else []) + (['pi:comments'] if comments else []) + (['pi:pass-through rule + backtracking'] if passthrough else []),
                    sample=dict(grammar=gtext, input=text, asmodel=asmodel, dicts_or_nodes=info.get('nodes')))
            if d is not None:
                sh.fail('pi:' + d['bucket'], dict(kind='parseinfo', rules=rules, types=types, start=start, input=text, asmodel=asmodel, buffer=buffer, deco=deco, comments=comments), d)
    hyp_run(sh, gen.rnds(), body, n, label='pi')


def replay(case):
    d, _ = check(case['rules'], case.get('types') or {}, case['start'], case['input'], case.get('asmodel', False), case.get('buffer', False), deco=case.get('deco'), comments=bool(case.get('comments')))
    if d is not None:
        d = dict(d, bucket='pi:' + d['bucket'])
    return d


def shrink_candidates(case):
    rules = [(n, tup(x)) for n, x in case['rules']]
    text = case['input']
    for i in range(len(text)):
        yield dict(case, input=text[:i] + text[i + 1:])
    for r2 in shrink_rules(rules):
        if r2[0][0] == case['start']:
            names = {n for n, _ in r2}
            yield dict(case, rules=r2, types={k: v for k, v in (case.get('types') or {}).items() if k in names},
                       deco={k: v for k, v in (case.get('deco') or {}).items() if k in names})
