"""Specification-first generator of layered left-recursive expression grammars (C03, C04, C16).

A spec is a dict:
  levels: list (lowest precedence first) of dict(kind='left'|'right'|'unary', ops=[..], shape=..., rule=name)
          shape (left levels): 'direct' | 'alias_before' | 'alias_after' | 'named' | 'optpref'
  paren: bool      (atom: 'n' | 'm' | '(' e0 ')')
  stmt: None | dict(kw='k', sep=';')   optional statement layer with a cut (used by C04 only)
From a spec: grammar text, GAST rules (for RefPEG), and — for pure expression specs without
optpref — an independent precedence-climbing evaluator (`spec_eval`).
"""
from __future__ import annotations

LEFT_OPS = [['+'], ['+', '-'], ['*'], ['*', '/'], [','], ['|']]
RIGHT_OPS = [['^'], ['=']]
UNARY_OPS = [['-'], ['!'], ['~~']]


def gen_spec(rnd, stmt_ok=False, shapes=('direct', 'alias_before', 'alias_after', 'named', 'optpref', 'split', 'twin', 'mutual', 'prefalt'), pynames=False):
    nlev = rnd.randint(1, 3)
    levels = []
    used = set()
    # rule names: e0 e1 e2, or names that are Python keywords / builtins (a generated parser spells those differently)
    rnames = rnd.choice([['or', 'and', 'not'], ['in', 'is', 'type'], ['list', 'set', 'match']]) if pynames and rnd.random() < 0.2 else ['e0', 'e1', 'e2']
    for i in range(nlev):
        r = rnd.random()
        if r < 0.65 or i == 0:
            kind = 'left'
            pool = LEFT_OPS
        elif r < 0.85:
            kind = 'right'
            pool = RIGHT_OPS
        else:
            kind = 'unary'
            pool = UNARY_OPS
        pool = [ops for ops in pool if not set(ops) & used]
        if not pool:
            continue
        ops = rnd.choice(pool)
        used |= set(ops)
        lv = dict(kind=kind, ops=ops, rule=rnames[i])
        if kind == 'left':
            lv['shape'] = rnd.choice(shapes)
            if lv['shape'].startswith('alias'):
                # the alias sorts before or after the level rule (leader choice is by name)
                lv['alias'] = rnd.choice(['a', 'z']) + str(i)
            if lv['shape'] == 'split':
                # every operator alternative in its own rule (indirect recursion through a non-leader), optionally with a cut after
                # the operator, and a postfix operator that starts like the first binary operator (tried after it)
                lv['cuts'] = [rnd.random() < 0.6 for _ in ops]
                lv['postfix'] = ops[0] * 2 if rnd.random() < 0.6 else None
            if lv['shape'] == 'mutual':
                # two rules that call each other in left position, each with its own operator, both over the next level:
                # e: p op1 next | next ; p: e op2 next | next   (the partner's name sorts after the level rule, which stays the leader)
                free = [o for o in ['<<', '>>', '%%', '&&'] if o not in used]
                if free:
                    lv['partner_op'] = free[0]
                    used.add(free[0])
                else:
                    lv['shape'] = 'direct'
            if lv['shape'] == 'twin':
                # two rules, each directly left recursive, that also call each other in left position: no rule lies on all cycles
                if {'.', '::', '[]'} & used:
                    lv['shape'] = 'direct'
                else:
                    used |= {'.', '::', '[]'}
            if lv['shape'] == 'prefalt':
                # a prefix-operator alternative listed BEFORE the recursive ones:  e: '-' next | e op next | next
                # (where it matches it is the seed and the next round matches it again, so nothing grows; elsewhere the chain grows as usual)
                free = [o for o in ['-', '!', '#'] if o not in used]
                if free:
                    lv['pref'] = free[0]
                    used.add(free[0])
                else:
                    lv['shape'] = 'direct'
            if lv['shape'] == 'optpref':
                lv['pref'] = rnd.choice(['-', '!']) if not {'-', '!'} <= used else '#'
                if lv['pref'] in used:
                    lv['pref'] = '#'
                used.add(lv['pref'])
        levels.append(lv)
    spec = dict(levels=levels, paren=rnd.random() < 0.5, stmt=None)
    if stmt_ok and rnd.random() < 0.5:
        spec['stmt'] = dict(kw='k', sep=';', two_lr_alts=rnd.random() < 0.7, decl_rule=rnd.random() < 0.6)
    return spec


def start_rule(spec):
    if spec.get('stmt'):
        return 'ss'
    return spec['levels'][0]['rule']


def level_rules(spec):
    """GAST rules [(name, exp)] in definition order"""
    levels = spec['levels']
    rules = []
    for i, lv in enumerate(levels):
        name = lv['rule']
        nxt = levels[i + 1]['rule'] if i + 1 < len(levels) else 'atom'
        t = ('call', nxt)
        if lv['kind'] == 'left':
            shape = lv['shape']
            selfref = ('call', name)
            alias = lv.get('alias', name + 'x')
            if shape in ('alias_before', 'alias_after'):
                selfref = ('call', alias)
            if shape == 'split':
                alts = []
                extra = []
                for k, op in enumerate(lv['ops']):
                    rn = f'{name}a{k}'
                    seq = (selfref, ('tok', op)) + ((('cut',),) if lv['cuts'][k] else ()) + (t,)
                    extra.append((rn, ('seq', seq)))
                    alts.append(('call', rn))
                    if k == 0 and lv.get('postfix'):
                        extra.append((f'{name}p', ('seq', (selfref, ('tok', lv['postfix'])))))
                        alts.append(('call', f'{name}p'))
                alts.append(t)
                rules.append((name, ('alt', tuple(alts))))
                rules.extend(extra)
                continue
            if shape == 'mutual':
                partner = ('call', name + 'p')
                alts = [('seq', (partner, ('tok', op), t)) for op in lv['ops']] + [t]
                rules.append((name, ('alt', tuple(alts))))
                rules.append((name + 'p', ('alt', (('seq', (selfref, ('tok', lv['partner_op']), t)), t))))
                continue
            if shape == 'twin':
                w = ('call', name + 'w')
                alts = [('seq', (selfref, ('tok', op), t)) for op in lv['ops']]
                alts.append(('seq', (w, ('tok', '.'), t)))
                alts.append(t)
                rules.append((name, ('alt', tuple(alts))))
                rules.append((name + 'w', ('alt', (('seq', (w, ('tok', '[]'))), ('seq', (selfref, ('tok', '::'), t)), t))))
                continue
            alts = []
            if shape == 'prefalt':
                alts.append(('seq', (('tok', lv['pref']), t)))
            for op in lv['ops']:
                if shape == 'named':
                    alts.append(('seq', (('named', 'l', selfref), ('named', 'o', ('tok', op)), ('named', 'r', t))))
                elif shape == 'optpref':
                    alts.append(('seq', (('opt', ('tok', lv['pref'])), selfref, ('tok', op), t)))
                else:
                    alts.append(('seq', (selfref, ('tok', op), t)))
            alts.append(t)
            body = ('alt', tuple(alts))
            if shape == 'alias_before':
                rules.append((alias, ('call', name)))
                rules.append((name, body))
            elif shape == 'alias_after':
                rules.append((name, body))
                rules.append((alias, ('call', name)))
            else:
                rules.append((name, body))
        elif lv['kind'] == 'right':
            alts = [('seq', (t, ('tok', op), ('call', name))) for op in lv['ops']] + [t]
            rules.append((name, ('alt', tuple(alts))))
        else:
            alts = [('seq', (('tok', op), ('call', name))) for op in lv['ops']] + [t]
            rules.append((name, ('alt', tuple(alts))))
    atoms = [('tok', 'n'), ('tok', 'm')]
    if spec['paren']:
        atoms.append(('seq', (('tok', '('), ('call', levels[0]['rule']), ('tok', ')'))))
    rules.append(('atom', ('alt', tuple(atoms))))
    st = spec.get('stmt')
    if st:
        e0 = ('call', levels[0]['rule'])
        decl = ('seq', (('tok', st['kw']), ('cut',), ('tok', 'n'), ('tok', '='), e0))
        declrule = None
        if st.get('decl_rule'):
            declrule = ('decl', decl)   # the cut is confined to its own rule
            decl = ('call', 'decl')
        if st['two_lr_alts']:
            ss = ('alt', (('seq', (('call', 'ss'), ('tok', st['sep']), decl)),
                          ('seq', (('call', 'ss'), ('tok', st['sep']), e0)), decl, e0))
        else:
            ss = ('alt', (('seq', (('call', 'ss'), ('tok', st['sep']), ('call', 'st'))), ('call', 'st')))
            rules.insert(0, ('st', ('alt', (decl, e0))))
        rules.insert(0, ('ss', ss))
        if declrule:
            rules.insert(1, declrule)
        # 'k' is also an atom, so that the committed alternative can fail after its cut
        rules[-1] = ('atom', ('alt', tuple(atoms + [('tok', st['kw'])])))
    return rules


def spec_text(spec):
    from .gast import grammar_text
    return grammar_text(level_rules(spec))


def lexemes(spec):
    out = ['n', 'm']
    for lv in spec['levels']:
        out += lv['ops']
        if lv.get('pref'):
            out.append(lv['pref'])
        if lv.get('postfix'):
            out.append(lv['postfix'])
        if lv.get('shape') == 'twin':
            out += ['.', '::', '[]']
        if lv.get('partner_op'):
            out.append(lv['partner_op'])
    if spec['paren']:
        out += ['(', ')']
    if spec.get('stmt'):
        out += [spec['stmt']['kw'], spec['stmt']['sep'], '=']
    return out


def gen_input(rnd, spec, maxlex=7):
    """mostly well-formed operator/operand strings, with near misses"""
    lv = spec['levels']
    binops = [op for l in lv if l['kind'] != 'unary' for op in l['ops']]
    unops = [op for l in lv if l['kind'] == 'unary' for op in l['ops']] + [l['pref'] for l in lv if l.get('pref')]
    postfix = [l['postfix'] for l in lv if l.get('postfix')] + (['[]'] if any(l.get('shape') == 'twin' for l in lv) else [])
    if any(l.get('shape') == 'twin' for l in lv):
        binops = binops + ['.', '::']
    binops = binops + [l['partner_op'] for l in lv if l.get('partner_op')]
    n = rnd.randint(1, max(1, maxlex // 2))
    parts = []

    def operand(depth=0):
        out = []
        while unops and rnd.random() < 0.2:
            out.append(rnd.choice(unops))
        if spec['paren'] and depth < 2 and rnd.random() < 0.2:
            out += ['('] + expr(depth + 1, rnd.randint(1, 2)) + [')']
        else:
            out.append(rnd.choice(['n', 'm']))
        while postfix and rnd.random() < 0.25:
            out.append(rnd.choice(postfix))
        return out

    def expr(depth, k):
        out = operand(depth)
        for _ in range(k - 1):
            if binops:
                out.append(rnd.choice(binops))
            out += operand(depth)
        return out
    parts = expr(0, n)
    st = spec.get('stmt')
    if st:
        stmts = [parts]
        for _ in range(rnd.randint(0, 2)):
            r = rnd.random()
            if r < 0.4:
                stmts.append([st['kw'], 'n', '='] + expr(0, rnd.randint(1, 2)))
            elif r < 0.6:
                stmts.append([st['kw']])
            else:
                stmts.append(expr(0, rnd.randint(1, 2)))
        parts = []
        for i, s in enumerate(stmts):
            if i:
                parts.append(st['sep'])
            parts += s
    r = rnd.random()
    if r < 0.12 and binops:
        parts.append(rnd.choice(binops))                      # trailing operator
    elif r < 0.2 and binops and len(parts) > 1:
        i = rnd.randrange(len(parts))
        parts.insert(i, rnd.choice(binops))                   # doubled operator
    elif r < 0.26 and spec['paren']:
        parts.insert(rnd.randrange(len(parts) + 1), rnd.choice(['(', ')']))   # unbalanced parenthesis
    elif r < 0.3:
        del parts[rnd.randrange(len(parts))]
    style = rnd.random()
    if style < 0.4:
        s = ' '.join(parts)
    elif style < 0.7:
        s = ''
        for p in parts:
            if s and s[-1].isalnum() and p[0].isalnum():
                s += ' '
            s += p
    else:
        s = ''
        for p in parts:
            s += rnd.choice(['', ' ', '  ', '\n']) if s else ''
            s += p
    return s


def all_inputs(spec, maxlex):
    """every lexeme string up to maxlex lexemes (joined by single spaces)"""
    import itertools
    lx = lexemes(spec)
    for k in range(0, maxlex + 1):
        for t in itertools.product(lx, repeat=k):
            yield ' '.join(t)


# ---------------------------------------------------------------- independent spec evaluator
class _F(Exception):
    pass


def spec_eval(spec, text, rule=None):
    """precedence climbing over the table, no PEG machinery.
    returns ('ok', endpos, ast) | ('fail',) | None if the spec has a shape this evaluator does not express"""
    if spec.get('stmt') or any(lv.get('shape') in ('optpref', 'split', 'twin', 'mutual') for lv in spec['levels']):
        return None
    levels = spec['levels']
    names = [lv['rule'] for lv in levels]
    if rule is None:
        rule = names[0]
    for lv in levels:
        if rule == lv.get('alias', lv['rule'] + 'x'):
            rule = lv['rule']
    if rule not in names:
        return None
    n = len(text)

    def ws(p):
        while p < n and text[p].isspace():
            p += 1
        return p

    def tok(p, s):
        p = ws(p)
        if not text.startswith(s, p):
            return None
        q = p + len(s)
        if s.isalnum() and q < n and text[q].isalnum():
            return None  # nameguard
        return q

    def atom(p):
        for a in ('n', 'm'):
            q = tok(p, a)
            if q is not None:
                return q, a
        if spec['paren']:
            q = tok(p, '(')
            if q is not None:
                q2, v = level(0, q)
                q3 = tok(q2, ')')
                if q3 is None:
                    raise _F()
                return q3, ['(', v, ')']
        raise _F()

    def level(i, p):
        if i >= len(levels):
            return atom(p)
        lv = levels[i]
        if lv['kind'] == 'left':
            if lv['shape'] == 'prefalt':
                q = tok(p, lv['pref'])
                if q is not None:
                    try:
                        q2, v = level(i + 1, q)
                        return q2, [lv['pref'], v]      # the first alternative is the seed, and matches again in the next round: no growth
                    except _F:
                        pass
            p, lhs = level(i + 1, p)
            while True:
                for op in lv['ops']:
                    q = tok(p, op)
                    if q is None:
                        continue
                    try:
                        q2, rhs = level(i + 1, q)
                    except _F:
                        continue
                    if lv['shape'] == 'named':
                        lhs = {'l': lhs, 'o': op, 'r': rhs}
                    else:
                        lhs = [lhs, op, rhs]
                    p = q2
                    break
                else:
                    return p, lhs
        if lv['kind'] == 'right':
            p1, lhs = level(i + 1, p)
            for op in lv['ops']:
                q = tok(p1, op)
                if q is None:
                    continue
                try:
                    q2, rhs = level(i, q)
                except _F:
                    continue
                return q2, [lhs, op, rhs]
            return p1, lhs
        # unary
        for op in lv['ops']:
            q = tok(p, op)
            if q is None:
                continue
            try:
                q2, v = level(i, q)
            except _F:
                continue
            return q2, [op, v]
        return level(i + 1, p)

    try:
        p0 = ws(0)
        q, v = level(names.index(rule), p0)
        return ('ok', q, v)
    except _F:
        return ('fail',)
    except RecursionError:
        return None
