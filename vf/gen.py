"""Generators: grammars (GAST) by construction, sentences derived from a grammar,
near misses, layouts.  All functions take `rnd`, a random.Random-like object; checks
pass the object produced by hypothesis.strategies.randoms(use_true_random=False) so
that every choice is made by Hypothesis and is a function of VERIF_SEED."""
from __future__ import annotations

import random

from hypothesis import strategies as st

from .gast import children


def rnds():
    """Strategy for the source of choices of the structural generators below: a
    random.Random seeded by a Hypothesis-drawn 62-bit integer.  (st.randoms() was tried
    first: Hypothesis biases its draws towards small values, which gave 47% duplicate and
    mostly 1-5 node grammars; a drawn seed keeps every run a pure function of VERIF_SEED
    and spreads cases well.  Shrinking is done structurally on the generated case.)"""
    return st.integers(0, 2 ** 62).map(random.Random)

WORDS = ['a', 'b', 'c']
PUNCT = [',', '+']
TOKS = WORDS + PUNCT
# vetted pattern pool: none matches whitespace or the empty string
PATS = [('[0-9]+', ['1', '23', '7']), ('[x-z]', ['x', 'y', 'z']), ('q(r)s', ['qrs']), ('[a-c]+', ['ab', 'c', 'abc'])]
NAMES = ['n', 'm']
EXAMPLES = {}   # pattern -> example strings; checks may register pools for their own patterns
CONSTS = ['7', 'k', "'s'", '2.5']
SOUP = TOKS + ['1', '23', 'x', 'y', 'qrs', 'ab', ' ', '  ', '\n']


def wchoice(rnd, table):
    """table: list of (weight, value)"""
    total = sum(w for w, _ in table)
    r = rnd.random() * total
    acc = 0.0
    for w, v in table:
        acc += w
        if r < acc:
            return v
    return table[-1][1]


class GenCfg:
    def __init__(self, cut=False, names=True, itemful_names=True, lookahead=True, skipto=True, consts=True,
                 joins=True, depth=3, maxrules=3, toks=None, pats=None, recursion=True, upper=True, eofs=True):
        self.cut = cut
        self.names = names
        self.itemful_names = itemful_names
        self.lookahead = lookahead
        self.skipto = skipto
        self.consts = consts
        self.joins = joins
        self.depth = depth
        self.maxrules = maxrules
        self.toks = toks or TOKS
        self.pats = pats or PATS
        self.recursion = recursion
        self.upper = upper
        self.eofs = eofs


def gen_leaf(rnd, cfg, calls, itemful):
    table = [(50, 'tok'), (12, 'pat')]
    if calls:
        table.append((16, 'call'))
    if cfg.consts:
        table.append((3, 'const'))
    table += [(3, 'dot'), (2, 'empty')]
    if not itemful:
        table += [(3, 'void'), (1, 'fail')]
        if cfg.eofs:
            table.append((2, 'eof'))
    k = wchoice(rnd, table)
    if k == 'tok':
        return ('tok', rnd.choice(cfg.toks))
    if k == 'pat':
        return ('pat', rnd.choice(cfg.pats)[0])
    if k == 'call':
        return ('call', rnd.choice(calls))
    if k == 'const':
        return ('const', rnd.choice(CONSTS))
    return (k,)


def gen_exp(rnd, cfg, depth, calls, allcalls=(), itemful=False, innames=False):
    if depth <= 0:
        return gen_leaf(rnd, cfg, calls, itemful)
    table = [(25, 'leaf'), (22, 'seq'), (11, 'alt'), (5, 'grp'), (8, 'opt'), (8, 'star'), (4, 'plus')]
    if cfg.joins:
        table.append((5, 'join'))
    if cfg.lookahead and not itemful:
        table += [(3, 'and'), (3, 'not')]
    if cfg.names and not innames:
        table += [(6, 'named'), (3, 'namedl'), (2, 'ovr'), (1, 'ovrl'), (2, 'nestnamed')]
    if cfg.skipto:
        table.append((1, 'skipto'))
    if not itemful:
        table.append((1, 'skipgrp'))
    if cfg.cut and not itemful:
        table.append((6, 'cutseq'))
    k = wchoice(rnd, table)

    def sub(**kw):
        return gen_exp(rnd, cfg, depth - 1, calls, allcalls, kw.get('itemful', itemful), kw.get('innames', innames))

    if k == 'leaf':
        return gen_leaf(rnd, cfg, calls, itemful)
    if k == 'seq':
        n = rnd.randint(2, 3)
        items = [sub() for _ in range(n)]
        # a recursive tail: after a leading terminal, any rule may be called (terminating right recursion)
        if cfg.recursion and allcalls and items[0][0] in ('tok', 'pat') and rnd.random() < 0.25:
            items[-1] = ('call', rnd.choice(list(allcalls)))
        return ('seq', tuple(items))
    if k == 'alt':
        return ('alt', tuple(sub() for _ in range(rnd.randint(2, 3))))
    if k == 'cutseq':
        body = ('seq', (sub(), ('cut',), sub()))
        r = rnd.random()
        # cuts inside optionals and closures are the scopes with their own code paths
        if 0.4 <= r < 0.55:
            # the cut written directly in a plain group: ( x ~ ) y  and  ( x ~ y )
            a, _, b = body[1]
            return ('seq', (('grp', ('seq', (a, ('cut',)))), b)) if r < 0.48 else ('grp', body)
        return ('opt', body) if r < 0.25 else ('star', body) if r < 0.4 else body
    if k in ('grp', 'opt', 'skipgrp', 'skipto', 'and', 'not'):
        return (k, sub())
    if k in ('star', 'plus'):
        body = sub()
        if rnd.random() < 0.7 and body[0] not in ('tok', 'pat', 'dot'):
            body = ('seq', (('tok', rnd.choice(cfg.toks)), body))  # steer away from U2 (empty iterations)
        return (k, body)
    if k == 'join':
        body = sub()
        if rnd.random() < 0.7 and body[0] not in ('tok', 'pat', 'dot'):
            body = ('seq', (('tok', rnd.choice(cfg.toks)), body))
        sep = ('tok', rnd.choice([',', '+'])) if rnd.random() < 0.85 else ('pat', '[;:]')
        return ('join', sep, body, rnd.random() < 0.5, rnd.random() < 0.5)
    if k == 'nestnamed':
        # a name around a branch that may or may not bind another name: the inner name is still a key of the rule's AST
        outer, inner = rnd.sample(NAMES, 2)
        leaf = gen_leaf(rnd, cfg, calls, True)
        other = gen_leaf(rnd, cfg, calls, True)
        nk = rnd.choice(['named', 'named', 'namedl'])
        shape = rnd.randrange(4)
        if shape == 0:
            body = ('grp', ('alt', ((nk, inner, leaf), other)))
        elif shape == 1:
            body = ('grp', ('alt', (other, (nk, inner, leaf))))
        elif shape == 2:
            body = ('grp', ('seq', (other, ('opt', (nk, inner, leaf)))))
        else:
            body = ('star', ('seq', (('tok', rnd.choice(cfg.toks)), (nk, inner, leaf))))
        return (rnd.choice(['named', 'named', 'namedl']), outer, body)
    if k in ('named', 'namedl'):
        return (k, rnd.choice(NAMES), sub(itemful=cfg.itemful_names or itemful, innames=rnd.random() < 0.7))
    if k in ('ovr', 'ovrl'):
        return (k, sub(itemful=cfg.itemful_names or itemful, innames=True))
    raise AssertionError(k)


def gen_rules(rnd, cfg):
    n = rnd.randint(1, cfg.maxrules)
    pool = ['start', 'r1', 'r2', 'r3']
    names = pool[:n]
    if cfg.upper and n >= 2 and rnd.random() < 0.4:
        names[rnd.randint(1, n - 1)] = 'Up'
    rules = []
    for i, nm in enumerate(names):
        rules.append((nm, gen_exp(rnd, cfg, rnd.randint(2 if i == 0 else 1, cfg.depth), names[i + 1:], names)))
    return rules


# ---------------------------------------------------------------- sentences
class Lex:
    __slots__ = ('text', 'glue', 'kind')

    def __init__(self, text, glue=False, kind='tok'):
        self.text = text
        self.glue = glue  # no whitespace may be inserted before (patterns, any-char)
        self.kind = kind


def derive(rnd, rules, e, depth=6, out=None, marks=None):
    """random derivation of expression e; returns list of Lex.  marks (optional list) receives the
    lexeme index at which each cut was passed"""
    rmap = dict(rules) if not isinstance(rules, dict) else rules
    if out is None:
        out = []
    if len(out) >= 48:
        # keep sentences short: nesting depth of a parse grows with the input, and the checks run under a
        # recursion limit of 1500 so that unbounded recursion is observable
        return out
    k = e[0]
    if k == 'cut':
        if marks is not None:
            marks.append(len(out))
    elif k == 'tok':
        out.append(Lex(e[1]))
    elif k == 'pat':
        ex = EXAMPLES.get(e[1]) or next((xs for p, xs in PATS if p == e[1]), None)
        if ex is None:
            ex = [';'] if e[1] == '[;:]' else ['?']
        out.append(Lex(rnd.choice(ex), True, 'pat'))
    elif k == 'meta':
        out.append(Lex(rnd.choice(EXAMPLES.get('@' + e[1]) or ['ab', 'c', 'x1']), False, 'tok'))
    elif k == 'dot':
        out.append(Lex(rnd.choice(['a', 'x', '1', ',']), True, 'dot'))
    elif k == 'seq':
        for x in e[1]:
            derive(rnd, rmap, x, depth, out, marks)
    elif k == 'alt':
        derive(rnd, rmap, rnd.choice(e[1]), depth, out)
    elif k in ('grp', 'skipgrp', 'ovr', 'ovrl'):
        derive(rnd, rmap, e[1], depth, out, marks)
    elif k in ('named', 'namedl'):
        derive(rnd, rmap, e[2], depth, out, marks)
    elif k == 'opt':
        if rnd.random() < 0.6:
            derive(rnd, rmap, e[1], depth, out, marks)
    elif k in ('star', 'plus'):
        n = rnd.randint(1 if k == 'plus' else 0, 3)
        for _ in range(n):
            derive(rnd, rmap, e[1], depth - 1, out, marks)
    elif k == 'join':
        n = rnd.randint(1 if e[3] else 0, 3)
        for i in range(n):
            if i:
                derive(rnd, rmap, e[1], depth - 1, out, marks)
            derive(rnd, rmap, e[2], depth - 1, out, marks)
    elif k == 'call' or k == 'inc':
        if depth > 0 and e[1] in rmap:
            derive(rnd, rmap, rmap[e[1]], depth - 1, out, marks)
    elif k == 'skipto':
        for _ in range(rnd.randint(0, 2)):
            out.append(Lex(rnd.choice(SOUP).strip() or 'b'))
        derive(rnd, rmap, e[1], depth, out, marks)
    return out


def layout(rnd, lexs, style='base'):
    """join lexemes into text. base: single spaces where allowed; varied: random runs"""
    s = ''
    for i, lx in enumerate(lexs):
        if i and not lx.glue:
            if style == 'base':
                s += ' '
            elif style == 'tight':
                prev = lexs[i - 1].text
                need = prev[-1:].isalnum() and lx.text[:1].isalnum()
                s += ' ' if need or rnd.random() < 0.3 else ''
            else:
                s += rnd.choice([' ', '  ', '\n', ' \t', '\r\n ', ' '])
        s += lx.text
    return s


def near_miss(rnd, lexs):
    lexs = list(lexs)
    if not lexs:
        return [Lex(rnd.choice(TOKS))]
    op = rnd.choice(['drop', 'swap', 'replace', 'dup', 'trunc', 'insert'])
    i = rnd.randrange(len(lexs))
    if op == 'drop':
        del lexs[i]
    elif op == 'swap' and len(lexs) > 1:
        j = (i + 1) % len(lexs)
        lexs[i], lexs[j] = lexs[j], lexs[i]
    elif op == 'replace':
        lexs[i] = Lex(rnd.choice(SOUP).strip() or 'c', lexs[i].glue)
    elif op == 'dup':
        lexs.insert(i, lexs[i])
    elif op == 'trunc':
        lexs = lexs[:i]
    else:
        lexs.insert(i, Lex(rnd.choice(SOUP).strip() or 'a'))
    return lexs


def soup(rnd, maxn=7):
    n = rnd.randint(0, maxn)
    parts = []
    for _ in range(n):
        parts.append(rnd.choice(SOUP))
        if rnd.random() < 0.5:
            parts.append(' ')
    return ''.join(parts)


def gen_inputs(rnd, rules, start, n=6):
    """a mix of derived sentences, near misses and token soup"""
    rmap = dict(rules)
    out = []
    for i in range(n):
        r = rnd.random()
        if r < 0.5:
            lx = derive(rnd, rmap, rmap[start])
            out.append(layout(rnd, lx, rnd.choice(['base', 'base', 'tight', 'varied'])))
        elif r < 0.8:
            lx = near_miss(rnd, derive(rnd, rmap, rmap[start]))
            out.append(layout(rnd, lx, rnd.choice(['base', 'tight'])))
        else:
            out.append(soup(rnd))
    return out


def ctx_hist(rules):
    """node-type x context histogram keys for the evidence"""
    keys = []

    def rec(e, ctx):
        keys.append(f'{e[0]}@{ctx}')
        k = e[0]
        for i, c in enumerate(children(e)):
            if k == 'seq':
                rec(c, 'seq0' if i == 0 else 'seqN')
            elif k in ('star', 'plus', 'join'):
                rec(c, 'closure')
            elif k in ('named', 'namedl', 'ovr', 'ovrl'):
                rec(c, 'name')
            else:
                rec(c, k)
    for _, x in rules:
        rec(x, 'rule')
    return keys


# ---------------------------------------------------------------- cuts
def cut_sites(e, path=(), under=()):
    """positions where a cut may be inserted: (path to a seq node, index) — not under a negative
    lookahead or skip-to (there a cut is not monotone) and not under a positive lookahead"""
    k = e[0]
    if k == 'seq' and not set(under) & {'not', 'skipto', 'and'}:
        for i in range(1, len(e[1]) + 1):
            yield path, i
    for j, c in enumerate(children(e)):
        yield from cut_sites(c, path + (j,), under + (k,))


def insert_at(e, path, fn):
    from .gast import replace_children
    if not path:
        return fn(e)
    cs = children(e)
    cs[path[0]] = insert_at(cs[path[0]], path[1:], fn)
    return replace_children(e, cs)


def insert_cuts(rnd, rules, maxcuts=3):
    """returns new rules with 1..maxcuts cuts inserted (or None if there is no site)"""
    rules = list(rules)
    n = rnd.randint(1, maxcuts)
    done = 0
    for _ in range(n):
        sites = [(ri, p, i) for ri, (_, x) in enumerate(rules) for p, i in cut_sites(x)]
        if not sites:
            break
        ri, p, i = rnd.choice(sites)
        name, x = rules[ri]
        rules[ri] = (name, insert_at(x, p, lambda s, i=i: ('seq', s[1][:i] + (('cut',),) + s[1][i:])))
        done += 1
    return rules if done else None


def strip_cuts(e):
    from .gast import replace_children
    if e[0] == 'seq':
        items = tuple(strip_cuts(x) for x in e[1] if x[0] != 'cut')
        if not items:
            return ('void',)
        return items[0] if len(items) == 1 else ('seq', items)
    return replace_children(e, [strip_cuts(c) for c in children(e)])


def rename_rules(rules, ren):
    """rules with the rule names (definitions and calls) renamed through the dict ren"""
    from .gast import replace_children

    def rn(e):
        if e[0] in ('call', 'inc'):
            return (e[0], ren.get(e[1], e[1]))
        return replace_children(e, [rn(c) for c in children(e)])
    return [(ren.get(n, n), rn(x)) for n, x in rules]


def underscore_twins(rnd, rules):
    """two rules of the grammar get names that differ only in leading/trailing underscores (x and _x, x_ or _x_): anything keyed by a
    'normalised' rule name (memo keys, method names, caches) must still tell them apart"""
    if len(rules) < 2:
        return rules
    (a, _), (b, _) = rnd.sample(rules, 2)
    twin = rnd.choice(['_' + a, a + '_', '_' + a + '_'])
    if twin in [n for n, _ in rules]:
        return rules
    return rename_rules(rules, {b: twin})
