"""Coverage-guided fuzz target for C08 (atheris / libFuzzer), used by the thorough tier.

usage:  python -m vf.fuzz08 <mode> <outdir> [libFuzzer args...]
  mode = texts    : bytes -> (grammar index, route, parseinfo, utf-8 text) parsed by one of C08's fixed grammars
  mode = grammars : bytes -> utf-8 text given to tatsu.compile (corpus seeded with valid grammars)
The oracle is C08's (vf.props.c08.run_parse / check_compile) and sits inside the target; a violated oracle is
written to <outdir>/finding-<n>.json and the process keeps fuzzing (findings are bucketed, one file per bucket).
"""
from __future__ import annotations

import json
import os
import sys


def main():
    mode, outdir = sys.argv[1], sys.argv[2]
    os.makedirs(outdir, exist_ok=True)
    import atheris
    with atheris.instrument_imports(include=['tatsu']):
        import tatsu  # noqa: F401
        import tatsu.contexts.context  # noqa: F401
        import tatsu.input.cursor  # noqa: F401
    from vf.props import c08
    seen = set()
    stats = dict(execs=0, findings=0)

    def flush():
        with open(os.path.join(outdir, 'stats.json'), 'w') as f:
            json.dump(stats, f)

    def record(case, detail):
        b = detail.get('bucket', '?')
        if b in seen:
            return
        seen.add(b)
        stats['findings'] += 1
        with open(os.path.join(outdir, f'finding-{len(seen)}.json'), 'w') as f:
            json.dump(dict(case=case, detail=detail), f, ensure_ascii=False)

    fixed = c08.FIXED
    routes = ['model-str', 'model-buffer', 'generated']

    def texts_target(data):
        stats['execs'] += 1
        if stats['execs'] % 200 == 0:
            flush()
        if len(data) < 2:
            return
        gid, gtext = fixed[data[0] % len(fixed)]
        route = routes[(data[1] >> 1) % 3]
        pi = bool(data[1] & 1)
        try:
            text = data[2:].decode('utf-8')
        except UnicodeDecodeError:
            return
        if len(text) > 60:
            text = text[:60]
        d, _ = c08.check_text(gid, gtext, route, pi, text)
        if d is not None:
            record(dict(kind='text', gid=gid, grammar=gtext, route=route, parseinfo=pi, text=text), d)

    def grammars_target(data):
        stats['execs'] += 1
        if stats['execs'] % 50 == 0:
            flush()
        try:
            text = data.decode('utf-8')
        except UnicodeDecodeError:
            return
        if len(text) > 400:
            return
        d, _ = c08.check_compile(text)
        if d is not None:
            record(dict(kind='grammar', text=text), d)

    target = texts_target if mode == 'texts' else grammars_target
    args = [sys.argv[0]] + sys.argv[3:]
    atheris.Setup(args, target)
    flush()
    atheris.Fuzz()   # libFuzzer exits the process itself; stats are flushed periodically by the target


if __name__ == '__main__':
    main()
