"""RefPEG — an independent, memo-free reference evaluator of GAST written from
docs/syntax.rst and docs/ast.rst.  Shares no code with tatsu.

Ref(rules, text, **cfg).parse(start) -> ('ok', endpos, value) | ('fail',) | ('budget',)
After a parse: .flags (unspecified-behaviour flags, see DESIGN.md §2.3), .trace
(successful rule invocations: (rule, start_after_ws, end, value)), .cutfails
(constructs that failed after an executed cut), .calls (semantic action calls).
"""
from __future__ import annotations

import ast as pyast
import re

from .gast import children, names_in


class Acc(list):
    """a list built by repeated bindings of one name"""


class PFail(Exception):
    pass


class Budget(Exception):
    pass


class RefFailedSemantics(Exception):
    pass


class Scope:
    __slots__ = ('cut',)

    def __init__(self):
        self.cut = False


NOITEM = {'void', 'and', 'not', 'eof', 'eol', 'cut', 'skipgrp', 'fail', 'alert'}


def has_noitem(e):
    k = e[0]
    if k in NOITEM:
        return True
    return any(has_noitem(c) for c in children(e))


def has_binding(e):
    if e[0] in ('named', 'namedl', 'ovr', 'ovrl'):
        return True
    return any(has_binding(c) for c in children(e))


def fold(items):
    if not items:
        return None
    if len(items) == 1:
        return items[0]
    return list(items)


def has_direct_cut(e):
    if e[0] == 'cut':
        return True
    if e[0] == 'seq':
        return any(has_direct_cut(x) for x in e[1])
    if e[0] in ('named', 'namedl'):
        return has_direct_cut(e[2])
    if e[0] in ('ovr', 'ovrl', 'grp'):
        return has_direct_cut(e[1])
    return False


class Ref:
    def __init__(self, rules, text, ws=r'\s+', comments=None, eol_comments=None, nameguard=None,
                 ignorecase=False, namechars='', keywords=(), actions=None, lr=True, max_steps=200000, group_scopes_cut=False):
        self.group_scopes_cut = group_scopes_cut   # the documented reading of U7 (the engine's: a plain group is transparent to cuts)
        self.u7_lookahead = False
        self.rules = {}
        self.ruleinfo = {}
        for r in rules:
            if isinstance(r, (tuple, list)):
                self.rules[r[0]] = r[1]
                self.ruleinfo[r[0]] = {}
            else:
                self.rules[r['name']] = r['exp']
                self.ruleinfo[r['name']] = r
        self.text = text
        self.ws = re.compile(ws) if ws else None
        self.comments = re.compile(comments) if comments else None
        self.eol_comments = re.compile(eol_comments) if eol_comments else None
        self.namechars = set(namechars or '')
        if nameguard is None:
            nameguard = bool(self.ws) or bool(self.namechars)
        self.nameguard = nameguard
        self.ignorecase = ignorecase
        self.keywords = {k.upper() for k in keywords} if ignorecase else set(keywords)
        self.actions = actions
        self.flags = set()
        self.steps = 0
        self.max_steps = max_steps
        self.active = {}
        self.lr = lr
        self.trace = []
        self.cutfails = []
        self.calls = []
        self.matched_terminals = 0
        self.openlist_values = False

    def allnames(self):
        if not hasattr(self, '_allnames'):
            self._allnames = set()
            for x in self.rules.values():
                a, b = names_in(x)
                self._allnames |= set(a) | set(b)
        return self._allnames

    # ------------------------------------------------------------ lexical
    def skip(self, p):
        t = self.text
        while True:
            p0 = p
            for rx in (self.ws, self.eol_comments, self.comments):
                if rx is not None:
                    m = rx.match(t, p)
                    if m and m.end() > p:
                        p = m.end()
            if p == p0:
                return p

    def isnamechar(self, c):
        return c.isalnum() or c in self.namechars

    def isname(self, s):
        return bool(s) and (s[0].isalpha() or s[0] in self.namechars) and all(self.isnamechar(c) for c in s[1:])

    # ------------------------------------------------------------ evaluation
    # each ev returns (pos, items, binds); binds = list of (kind, name, value)
    def ev(self, e, p, sc):
        self.steps += 1
        if self.steps > self.max_steps:
            raise Budget()
        k = e[0]
        t = self.text
        if k == 'tok':
            p = self.skip(p)
            s = e[1]
            seg = t[p:p + len(s)]
            ok = seg.lower() == s.lower() if self.ignorecase else seg == s
            if not ok or not s:
                raise PFail()
            q_ = p + len(s)
            if self.nameguard and q_ < len(t) and self.isnamechar(t[q_]) and self.isname(s):
                raise PFail()
            self.matched_terminals += 1
            return q_, [s], []
        if k == 'pat':
            m = re.compile(e[1]).match(t, p)
            if not m:
                raise PFail()
            g = m.groups(default='')
            if len(g) > 1:
                self.flags.add('U4')
            v = g[0] if len(g) >= 1 else m.group()
            if m.end() > p:
                self.matched_terminals += 1
            return m.end(), [v], []
        if k == 'seq':
            items, binds = [], []
            for x in e[1]:
                p, i, b = self.ev(x, p, sc)
                items += i
                binds += b
            return p, items, binds
        if k == 'alt':
            for x in e[1]:
                s2 = Scope()
                try:
                    return self.ev(x, p, s2)
                except PFail:
                    if s2.cut:
                        self.cutfails.append('option')
                        raise PFail() from None
            raise PFail()
        if k == 'grp':
            if has_direct_cut(e[1]):
                self.flags.add('U7')
                if self.group_scopes_cut:
                    return self.ev(e[1], p, Scope())
            return self.ev(e[1], p, sc)
        if k == 'skipgrp':
            p, i, b = self.ev(e[1], p, Scope())
            return p, [], []
        if k == 'opt':
            s2 = Scope()
            try:
                return self.ev(e[1], p, s2)
            except PFail:
                if s2.cut:
                    self.cutfails.append('optional')
                    raise PFail() from None
                return p, [], []
        if k in ('star', 'plus'):
            return self.closure(e[1], None, k == 'plus', False, p)
        if k == 'join':
            _, sep, x, positive, gather = e
            if positive:
                return self.closure(x, sep, True, gather, p)
            return self.closure(x, sep, True, gather, p, fallback=True)
        if k == 'and':
            if has_direct_cut(e[1]):
                self.flags.add('U7')
                self.u7_lookahead = True
            self.ev(e[1], p, Scope())
            return p, [], []
        if k == 'not':
            if has_direct_cut(e[1]):
                self.flags.add('U7')
                self.u7_lookahead = True
            try:
                self.ev(e[1], p, Scope())
            except PFail:
                return p, [], []
            raise PFail()
        if k == 'call':
            q_, v = self.rule(e[1], p)
            if v is None:
                self.flags.add('U9')
            return q_, [v], []
        if k in ('named', 'namedl'):
            q_, i, b = self.ev(e[2], p, sc)
            if has_noitem(e[2]):
                self.flags.add('U3')
            if has_binding(e[2]):
                self.flags.add('U13')  # a name/override inside the operand of a name/override: the bound value is not documented
            return q_, i, b + [(k, e[1], fold(i))]
        if k in ('ovr', 'ovrl'):
            q_, i, b = self.ev(e[1], p, sc)
            if has_noitem(e[1]):
                self.flags.add('U3')
            if has_binding(e[1]):
                self.flags.add('U13')
            if k == 'ovrl' or len(i) > 1:
                self.openlist_values = True   # the rule's value is an "open" list (see known finding F-C01-a)
            return q_, i, b + [(k, '@', fold(i))]
        if k == 'const':
            p = self.skip(p)
            txt = e[1]
            try:
                v = pyast.literal_eval(txt.strip())
            except Exception:
                v = txt
                if '{' in txt or '(' in txt or '[' in txt or txt.strip() in self.allnames():
                    self.flags.add('U5')  # interpolation / expression over AST names: not modelled here (see C17)
            if isinstance(v, (list, tuple, dict, set)):
                self.flags.add('U5')
            if v is None:
                self.flags.add('U9')
            return p, [v], []
        if k == 'alert':
            return self.skip(p), [], []
        if k == 'void':
            return self.skip(p), [], []
        if k == 'meta' and e[1] == 'name':
            p = self.skip(p)
            q_ = p
            if q_ < len(t) and (t[q_] == '_' or t[q_].isalpha() or t[q_] in self.namechars):
                q_ += 1
                while q_ < len(t) and (t[q_] == '_' or t[q_].isalnum() or t[q_] in self.namechars):
                    q_ += 1
                self.matched_terminals += 1
                return q_, [t[p:q_]], []
            raise PFail()
        if k == 'fail':
            raise PFail()
        if k == 'eof':
            p = self.skip(p)
            if p < len(t):
                raise PFail()
            return p, [], []
        if k == 'dot':
            if p >= len(t):
                raise PFail()
            self.matched_terminals += 1
            return p + 1, [t[p]], []
        if k == 'empty':
            return p, [[]], []
        if k == 'cut':
            sc.cut = True
            return p, [], []
        if k == 'skipto':
            while True:
                try:
                    self.ev(e[1], p, Scope())
                    break
                except PFail:
                    pass
                if p >= len(t):
                    break
                q_ = self.skip(p)
                if q_ == p:
                    q_ = p + 1
                p = q_
            return self.ev(e[1], p, sc)
        raise ValueError(k)

    def closure(self, x, sep, positive, gather, p, fallback=False):
        """closures and joins, by the documented equivalences
             {x}    = B,  B -> x B | eps          {x}+    = B,  B -> x B | x
             s%{e}+ = e {s ~ e}                   s%{e}   = s%{e}+ | {}
        `fallback` is True for the non-positive join/gather (the implicit `| {}`)."""
        start = p
        iters = []  # per completed iteration: (startpos, cut executed?, n vals before, n binds before)
        vals, binds = [], []
        k = 0
        while True:
            k += 1
            s2 = Scope()
            p0 = p
            try:
                q_ = p
                sv = None
                if k > 1 and sep is not None:
                    q_, si, sb = self.ev(sep, q_, s2)
                    sv = (fold(si), sb)
                    s2.cut = True
                q_, i, b = self.ev(x, q_, s2)
            except PFail:
                if not s2.cut:
                    if k == 1 and fallback:
                        return start, [[]], []
                    if k == 1 and positive:
                        raise PFail() from None
                    break
                # a failure after a cut executed in this iteration
                if sep is not None:
                    self.cutfails.append('join-iter1' if k == 1 else 'join-after-sep')
                    # k == 1: the option `e {s ~ e}` is committed; k > 1: {s ~ e} fails as a whole
                    if positive and not fallback:
                        raise PFail() from None
                    if k == 1 or iters[0][1]:
                        raise PFail() from None  # first e passed a cut: no fallback to {}
                    return start, [[]], []
                self.cutfails.append('closure-iter1' if k == 1 else 'closure-iterN')
                j = k - 1
                while j >= 1 and iters[j - 1][1]:
                    j -= 1
                if j == 0:
                    raise PFail() from None
                # B_j -> eps: iterations before j are kept
                if j > 1 or positive:
                    self.flags.add('U12')
                st_, _c, nv, nb = iters[j - 1]
                del vals[nv:]
                del binds[nb:]
                p = st_
                break
            if q_ == p0:
                self.flags.add('U2')
                if k == 1:
                    vals.append(fold(i))
                    binds += b
                break
            if k == 1 and sep is not None and positive and not fallback and s2.cut:
                self.flags.add('U11')  # docs: e of `e {s ~ e}` commits the enclosing option; engine: confined
            iters.append((p0, s2.cut, len(vals), len(binds)))
            if sv is not None:
                if not gather:
                    vals.append(sv[0])
                    if sv[0] is None:
                        self.flags.add('U9')
                binds += sv[1]
            if not i:
                self.flags.add('U9')  # an iteration that yields no item: its value is not documented
            vals.append(fold(i))
            binds += b
            p = q_
        return p, [vals], binds

    # ------------------------------------------------------------ rules
    def rule(self, name, p):
        if name not in self.rules:
            raise PFail()
        if not name.lstrip('_')[:1].isupper():
            p = self.skip(p)
        if not self.lr:
            return self.rule_body(name, p)
        key = (name, p)
        if key in self.active:
            seed = self.active[key]
            self.flags.add('LR')
            if seed is None:
                raise PFail()
            return seed
        self.active[key] = None
        try:
            last = None
            while True:
                try:
                    res = self.rule_body(name, p)
                except PFail:
                    break
                if 'LR' not in self.flags and last is None:
                    return res  # no recursion met anywhere so far: ordinary rule
                if last is not None and res[0] <= last[0]:
                    break
                last = res
                self.active[key] = res
            if last is None:
                raise PFail()
            return last
        finally:
            del self.active[key]

    def rule_body(self, name, p):
        body = self.rules[name]
        info = self.ruleinfo.get(name) or {}
        opts = body[1] if body[0] == 'alt' else [body]
        for o in opts:
            s2 = Scope()
            try:
                q_, items, binds = self.ev(o, p, s2)
            except PFail:
                if s2.cut:
                    self.cutfails.append('rule-option')
                    raise PFail() from None
                continue
            single, lst = names_in(o)
            ast = {}
            for n in lst:
                ast[n] = []
            for n in single:
                if n not in ast:
                    ast[n] = None
            ovr = False
            ovv = None
            for kind, n, v in binds:
                if kind == 'named':
                    ast[n] = self.cstadd(ast.get(n), v)
                elif kind == 'namedl':
                    cur = ast.get(n)
                    ast[n] = Acc([v]) if cur is None or cur == [] else (Acc(cur + [v]) if isinstance(cur, list) else Acc([cur, v]))
                elif kind == 'ovr':
                    if ovr:
                        self.openlist_values = True   # repeated overrides accumulate into an "open" list (F-C01-a)
                    ovv = v if not ovr else self.cstadd(ovv, v)
                    ovr = True
                elif kind == 'ovrl':
                    ovv = [v] if not ovr else self.cstadd(ovv, v)
                    ovr = True
            if (single or lst) and o[0] != 'seq' and {b[1] for b in binds} != set(single) | set(lst):
                self.flags.add('U1')
            if ovr:
                value = ovv
            elif ast:
                value = ast
            else:
                value = fold(items)
            return q_, self.finish(name, info, p, q_, value)
        raise PFail()

    def finish(self, name, info, p, q_, value):
        if 'name' in (info.get('decorators') or ()):
            s = str(value)
            if self.ignorecase:
                s = s.upper()
            if s in self.keywords:
                raise PFail()
        if self.actions is not None:
            try:
                value = self.actions(name, value, tuple(info.get('params') or ()), dict(info.get('kwparams') or {}))
            except RefFailedSemantics:
                self.calls.append((name, 'failed'))
                raise PFail() from None
        self.trace.append((name, p, q_, value))
        return value

    def cstadd(self, cur, v):
        if cur is None:
            return v
        if isinstance(cur, Acc):
            return Acc(cur + [v])
        if isinstance(cur, list):
            self.flags.add('U6')
            return Acc(cur + [v])
        return Acc([cur, v])

    def parse(self, start):
        try:
            p, v = self.rule(start, 0)
            return ('ok', p, v)
        except PFail:
            return ('fail',)
        except RecursionError:
            return ('budget',)
        except Budget:
            return ('budget',)
