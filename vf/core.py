"""Shared runner machinery: shards, collectors, replay, known findings, evidence.

A property module (vf.props.cNN) provides
    PROPERTY   = "CNN"
    RULE       = "how cases are generated / what is non-trivial"
    ASSUMPTIONS = [...]
    def plan(tier) -> list[dict]          # one dict of parameters per shard
    def run_shard(sh, **params)           # generates cases, calls sh.case()/sh.fail()
    def replay(case) -> None | dict       # re-run one recorded case, no generator
    def shrink_candidates(case)           # optional: yields smaller cases
    EXCLUSIONS = {finding_id: pred(case, detail)}   # optional, narrow
"""
from __future__ import annotations

import contextlib
import hashlib
import json
import multiprocessing as mp
import os
import signal
import subprocess
import sys
import time
import traceback
from collections import Counter
from pathlib import Path

HOME = Path(os.environ.get('VF_HOME', Path(__file__).resolve().parent.parent))
REPO = os.environ.get('VF_REPO', '/repo')
NPROC = int(os.environ.get('VF_NPROC', '16'))
EXAMPLE_TIMEOUT_S = 90


# ----------------------------------------------------------------- utilities
def h64(*parts) -> int:
    m = hashlib.blake2b(digest_size=8)
    for p in parts:
        m.update(repr(p).encode('utf-8', 'surrogatepass'))
        m.update(b'\0')
    return int.from_bytes(m.digest(), 'big')


def jsonable(x, depth=0):
    if depth > 40:
        return '<deep>'
    if isinstance(x, (str, int, float, bool)) or x is None:
        return x
    if isinstance(x, dict):
        return {str(k): jsonable(v, depth + 1) for k, v in x.items()}
    if isinstance(x, (list, tuple, set, frozenset)):
        return [jsonable(v, depth + 1) for v in x]
    return repr(x)


class CaseTimeout(BaseException):
    """raised by the per-case watchdog (BaseException so library code that
    catches Exception cannot swallow it)"""


@contextlib.contextmanager
def watchdog(seconds: float = 10.0):
    """per-case alarm; nests (an inner watchdog restores the outer one's remaining time).
    The timer repeats every 0.25 s after it first expires: if the exception is lost (raised inside a gc
    callback or __del__, where Python ignores it) the alarm fires again until it propagates."""
    def onalarm(signum, frame):
        raise CaseTimeout()
    old = signal.signal(signal.SIGALRM, onalarm)
    t0 = time.time()
    prev = signal.setitimer(signal.ITIMER_REAL, seconds, 0.25)[0]
    try:
        yield
    finally:
        signal.setitimer(signal.ITIMER_REAL, 0)
        signal.signal(signal.SIGALRM, old)
        if prev:
            signal.setitimer(signal.ITIMER_REAL, max(0.01, prev - (time.time() - t0)), 0.25)


def reset_tatsu_state():
    """clear process-wide caches that are not the subject of a check"""
    try:
        from tatsu.api import api
        for k, v in vars(api).items():
            if k.endswith('compiled_grammar_cache') and hasattr(v, 'clear'):
                v.clear()
    except Exception:
        pass
    try:
        from tatsu.util import typetools
        for name in ('find_cached_semantic_action',):
            f = getattr(typetools, name, None)
            if f is not None and hasattr(f, 'cache_clear'):
                f.cache_clear()
    except Exception:
        pass


# ----------------------------------------------------------------- shard collector
class Shard:
    MAX_SAMPLES = 6
    MAX_FAILS_PER_BUCKET = 3

    def __init__(self, prop, tier, seed, index, nshards, deadline):
        self.prop = prop
        self.tier = tier
        self.seed = seed
        self.index = index
        self.nshards = nshards
        self.deadline = deadline
        self.evaluations = 0
        self.nontrivial = set()
        self.classes = Counter()
        self.flags = Counter()
        self.excluded = Counter()
        self.samples = []
        self.fails = {}
        self.notes = Counter()
        self.exhaustive = {}
        self.budget_exhausted = False

    # -- budget
    def out_of_budget(self) -> bool:
        if time.time() > self.deadline:
            self.budget_exhausted = True
            return True
        return False

    # -- recording
    def case(self, key, nontrivial=False, classes=(), sample=None):
        self.evaluations += 1
        if nontrivial:
            self.nontrivial.add(h64(key))
        if isinstance(classes, str):
            classes = (classes,)
        for c in classes:
            self.classes[c] += 1
        if sample is not None and nontrivial and len(self.samples) < self.MAX_SAMPLES:
            # spread samples: take the 1st, then sparser
            if self.evaluations % (1 + 37 * len(self.samples)) == 0 or not self.samples:
                self.samples.append(jsonable(sample))

    def flag(self, name, n=1):
        self.flags[name] += n

    def note(self, name, n=1):
        self.notes[name] += n

    def fail(self, bucket, case, detail):
        """record a violated oracle; generation continues"""
        lst = self.fails.setdefault(bucket, [])
        if len(lst) < self.MAX_FAILS_PER_BUCKET:
            lst.append((jsonable(case), jsonable(detail)))

    def result(self):
        return dict(index=self.index, evaluations=self.evaluations,
                    nontrivial=self.nontrivial, classes=self.classes, flags=self.flags,
                    excluded=self.excluded, samples=self.samples, fails=self.fails,
                    notes=self.notes, exhaustive=self.exhaustive,
                    budget_exhausted=self.budget_exhausted)


def hyp_run(sh: Shard, strategy, body, max_examples, label='t'):
    """Drive `body(value)` with Hypothesis: seeded, generate-only, failures are
    recorded by the body through sh.fail (collect-then-shrink), so an exception that
    escapes body is a harness error."""
    import hypothesis
    from hypothesis import HealthCheck, Phase, given, settings

    @hypothesis.seed(h64(sh.seed, sh.prop, sh.index, label))
    @settings(max_examples=max_examples, database=None, deadline=None, derandomize=False,
              report_multiple_bugs=False, phases=[Phase.generate],
              suppress_health_check=list(HealthCheck))
    @given(strategy)
    def t(v):
        if sh.out_of_budget():
            return
        try:
            with watchdog(EXAMPLE_TIMEOUT_S):
                body(v)
        except CaseTimeout:
            # a whole generated example (generation + compile + all its inputs) did not finish: recorded, never a verdict
            sh.note('example exceeded %ds (inconclusive)' % EXAMPLE_TIMEOUT_S)
            sh.notes['last timeout traceback: ' + ' | '.join(traceback.format_exc().splitlines()[-14:])[:1200]] += 1
    t()


# ----------------------------------------------------------------- known findings
def load_findings(prop):
    p = HOME / 'known_findings.json'
    if not p.exists():
        return []
    data = json.loads(p.read_text())
    return [f for f in data.get('findings', []) if prop in f.get('property', '').split(',') or f.get('property') == prop]


# ----------------------------------------------------------------- worker
def _worker(args):
    modname, tier, seed, index, nshards, deadline, params = args
    import importlib
    sys.setrecursionlimit(1500)
    mod = importlib.import_module(modname)
    sh = Shard(mod.PROPERTY, tier, seed, index, nshards, deadline)
    try:
        mod.run_shard(sh, **params)
    except CaseTimeout:
        return dict(index=index, harness_error='stray watchdog alarm outside a case\n' + traceback.format_exc())
    except Exception:
        return dict(index=index, harness_error=traceback.format_exc())
    return sh.result()


def _nodaemon_pool(n):
    """a fork pool whose workers are not daemonic, so that a shard may itself start processes (C18's real pools, C10's servers)"""
    import multiprocessing.pool
    base = mp.get_context('fork')

    class NoDaemonProcess(base.Process):
        @property
        def daemon(self):
            return False

        @daemon.setter
        def daemon(self, value):
            pass

    class Ctx(type(base)):
        Process = NoDaemonProcess

    class Pool(multiprocessing.pool.Pool):
        def __init__(self, *a, **k):
            k['context'] = Ctx()
            super().__init__(*a, **k)
    return Pool(n, maxtasksperchild=1)


def replay_in_subprocess(prop, path, timeout=120):
    """re-execute a recorded case in a fresh interpreter. returns True if it still fails"""
    try:
        r = subprocess.run([str(HOME / 'check'), prop, 'quick', '--replay', str(path)],
                           stdout=subprocess.PIPE, stderr=subprocess.STDOUT, text=True, timeout=timeout)
    except subprocess.TimeoutExpired:
        return True, 'replay timed out'
    return r.returncode == 1, r.stdout[-2000:]


def safe_replay(mod, case, seconds=30):
    """run mod.replay(case) under a watchdog.  returns detail dict or None"""
    try:
        with watchdog(seconds):
            return mod.replay(case)
    except CaseTimeout:
        return {'oracle': 'no-result', 'observed': f'no result within {seconds}s'}


def shrink(mod, case, bucket, budget_s=60):
    """greedy structural shrink using the module's candidate generator"""
    gen = getattr(mod, 'shrink_candidates', None)
    if gen is None:
        return case
    t0 = time.time()
    improved = True
    cur = case
    while improved and time.time() - t0 < budget_s:
        improved = False
        for cand in gen(cur):
            if time.time() - t0 > budget_s:
                break
            try:
                d = safe_replay(mod, cand, 15)
            except Exception:
                continue
            if d is not None and d.get('bucket', bucket) == bucket:
                cur = cand
                improved = True
                break
    return cur


# ----------------------------------------------------------------- main driver
def run_check(mod, tier, seed):
    prop = mod.PROPERTY
    t0 = time.time()
    budget = float(os.environ.get('VERIF_BUDGET_S', mod.BUDGET_S[tier] if hasattr(mod, 'BUDGET_S') else (150 if tier == 'quick' else 1500)))
    deadline = t0 + budget
    lines = []
    violations = []
    known_lines = []
    findings = load_findings(prop)
    open_findings = [f for f in findings if f.get('status') == 'open']
    notes = {}

    import tatsu
    tf = os.path.realpath(tatsu.__file__)
    if not tf.startswith(os.path.realpath(REPO) + os.sep):
        print(f'HARNESS-ERROR tatsu imported from {tf}, expected under {REPO}')
        return 2

    # 1. replay recorded cases: open findings, fixed findings, regress replays
    regress = []
    for f in findings:
        for case in f.get('cases', []):
            if case.get('property', prop) != prop:
                continue
            regress.append((f, case))
    n_regress = 0
    for f, case in regress:
        n_regress += 1
        try:
            d = safe_replay(mod, case)
        except Exception:
            print('HARNESS-ERROR replay of finding', f['id'], traceback.format_exc())
            return 2
        if f.get('status') == 'open':
            if d is not None:
                line = f"KNOWN-FINDING: property={prop} {f['id']} {f['title']}"
                if line not in known_lines:
                    known_lines.append(line)
            else:
                notes.setdefault('finding_no_longer_reproduces', []).append(f['id'])
        else:
            if d is not None:
                path = write_replay(prop, case, d, tag='regress-' + f['id'])
                violations.append((path, f"regression of fixed finding {f['id']}", d))
    rdir = HOME / 'replays' / 'regress' / prop
    if rdir.is_dir():
        for p in sorted(rdir.glob('*.json')):
            case = json.loads(p.read_text())['case']
            n_regress += 1
            d = safe_replay(mod, case)
            if d is not None:
                violations.append((str(p), 'regress replay fails', d))

    # 2. generated search, sharded
    plan = mod.plan(tier)
    nshards = len(plan)
    args = [(mod.__name__, tier, seed, i, nshards, deadline, params) for i, params in enumerate(plan)]
    results = []
    lost_shards = 0
    if nshards:
        # a shard that does not come back (the code under test left something behind that blocks the worker) must not block the
        # check: well after the budget the pool is torn down and what the other shards found is reported
        hard_stop = deadline + max(120.0, 0.5 * budget)
        with _nodaemon_pool(min(NPROC, nshards)) as pool:
            it = pool.imap_unordered(_worker, args)
            for _ in range(nshards):
                try:
                    results.append(it.next(timeout=max(1.0, hard_stop - time.time())))
                except mp.TimeoutError:
                    lost_shards = nshards - len(results)
                    pool.terminate()
                    break
                except StopIteration:
                    break
    results.sort(key=lambda r: r['index'])
    for r in results:
        if 'harness_error' in r:
            print(f'HARNESS-ERROR shard {r["index"]}:\n{r["harness_error"]}')
            return 2

    evaluations = sum(r['evaluations'] for r in results)
    nontrivial = set()
    classes, flags, excluded, rnotes = Counter(), Counter(), Counter(), Counter()
    samples = []
    fails = {}
    exhaustive = {}
    budget_exhausted = False
    fail_shard = {}
    for r in results:
        nontrivial |= r['nontrivial']
        classes.update(r['classes']); flags.update(r['flags']); excluded.update(r['excluded'])
        rnotes.update(r['notes'])
        exhaustive.update(r['exhaustive'])
        budget_exhausted |= r['budget_exhausted']
        for b, lst in r['fails'].items():
            fails.setdefault(b, []).extend(lst)
            for case, _ in lst:
                fail_shard[id(case)] = r['index']
    # round-robin samples across shards
    i = 0
    while len(samples) < 8 and any(len(r['samples']) > i for r in results):
        for r in results:
            if len(r['samples']) > i and len(samples) < 8:
                samples.append(r['samples'][i])
        i += 1

    # 3. triage failures: known-finding exclusion, confirmation, shrinking
    exclusions = getattr(mod, 'EXCLUSIONS', {})
    open_ids = {f['id'] for f in open_findings}
    unconfirmed = 0
    history_tried = set()
    for bucket in sorted(fails):
        lst = fails[bucket]
        reported = False
        for case, detail in lst:
            fid = None
            for k, pred in exclusions.items():
                if k in open_ids:
                    try:
                        if pred(case, detail):
                            fid = k
                            break
                    except Exception:
                        pass
            if fid:
                excluded[fid] += 1
                f = next(f for f in open_findings if f['id'] == fid)
                line = f"KNOWN-FINDING: property={prop} {f['id']} {f['title']}"
                if line not in known_lines:
                    known_lines.append(line)
                continue
            if reported:
                continue
            path = write_replay(prop, case, detail, tag=bucket)
            still, out = replay_in_subprocess(prop, path)
            if not still:
                os.unlink(path)
                # the case alone does not fail in a fresh process.  Where the process history is part of what the property
                # quantifies over (module opt-in), the failing *history* is the shard's generated sequence: re-run that shard
                # from its seed in a fresh process and see whether the same bucket fails again (once per bucket).
                if getattr(mod, 'HISTORY_CONFIRM', False) and bucket not in history_tried and id(case) in fail_shard:
                    history_tried.add(bucket)
                    idx = fail_shard[id(case)]
                    hcase = {'__shard__': dict(tier=tier, seed=seed, index=idx, nshards=nshards, params=plan[idx]), 'bucket': bucket,
                             'example_case': jsonable(case)}
                    path = write_replay(prop, hcase, detail, tag='history-' + bucket)
                    still, out = replay_in_subprocess(prop, path, timeout=max(300, int(budget) * 2))
                    if still:
                        violations.append((path, 'history:' + bucket, detail))
                        reported = True
                        continue
                    os.unlink(path)
                unconfirmed += 1
                notes.setdefault('unconfirmed', []).append(dict(bucket=bucket, detail=json.dumps(jsonable(detail))[:400]))
                continue
            if tier == 'thorough' or os.environ.get('VF_SHRINK', '1') == '1':
                small = shrink(mod, case, bucket, 45 if tier == 'quick' else 180)
                if small != case:
                    # a shrunk case may fall into a known finding's class
                    d2 = safe_replay(mod, small) or detail
                    fid = None
                    for k, pred in exclusions.items():
                        if k in open_ids and pred(small, d2):
                            fid = k
                    if fid is None:
                        os.unlink(path)
                        path = write_replay(prop, small, d2, tag=bucket)
                        detail = d2
            violations.append((path, bucket, detail))
            reported = True

    for line in known_lines:
        print(line)
    for path, bucket, detail in violations:
        print(f'VIOLATION property={prop} replay={path}')
        print('   ', bucket, json.dumps(jsonable(detail))[:600])

    wall = time.time() - t0
    cov = dict(
        evaluations=evaluations + n_regress,
        distinct_nontrivial=len(nontrivial),
        rule=mod.RULE,
        samples=samples or [{'note': 'no non-trivial sample recorded'}],
        classes=dict(sorted(classes.items())),
        unspecified=dict(sorted(flags.items())),
        excluded_by_known_finding=dict(sorted(excluded.items())),
        replayed_recorded_cases=n_regress,
        unconfirmed=unconfirmed,
        shards=nshards,
        budget_exhausted=budget_exhausted,
        exhaustive=bool(exhaustive) and all(exhaustive.values()) and not budget_exhausted and getattr(mod, 'ALL_EXHAUSTIVE', False),
        exhaustive_subspaces=exhaustive,
        notes={**{k: v for k, v in sorted(rnotes.items())}, **notes, **({'shards that did not return': lost_shards} if lost_shards else {})},
        known_findings_reported=known_lines,
    )
    ev = dict(property_id=prop, tier=tier, seed=seed, level='exploration', coverage=cov,
              assumptions=list(getattr(mod, 'ASSUMPTIONS', [])), wall_s=round(wall, 2),
              violations=len(violations))
    # evidence is about /repo only: a run against a scratch tree (VF_REPO, sensitivity experiments) must not overwrite it
    scratch = os.path.realpath(os.environ.get('VF_REPO', '/repo')) != os.path.realpath('/repo')
    edir = HOME / ('evidence' if not scratch else 'replays/scratch-evidence')
    edir.mkdir(parents=True, exist_ok=True)
    (edir / f'{prop}.json').write_text(json.dumps(ev, indent=1, ensure_ascii=False) + '\n')
    print(f'{prop} {tier} seed={seed}: evaluations={cov["evaluations"]} distinct_nontrivial={cov["distinct_nontrivial"]} '
          f'violations={len(violations)} known={len(known_lines)} excluded={sum(excluded.values())} '
          f'unconfirmed={unconfirmed} wall={wall:.1f}s budget_exhausted={budget_exhausted}')
    if lost_shards and not violations:
        print(f'HARNESS-ERROR {lost_shards} of {nshards} shards did not return within the hard limit; nothing is claimed for them')
        return 2
    return 1 if violations else 0


def write_replay(prop, case, detail, tag=''):
    d = HOME / 'replays' / prop
    d.mkdir(parents=True, exist_ok=True)
    name = f'{h64(tag, case):016x}.json'
    p = d / name
    p.write_text(json.dumps(dict(property=prop, bucket=tag, case=jsonable(case), detail=jsonable(detail)),
                            indent=1, ensure_ascii=False) + '\n')
    return str(p)


def run_replay(mod, path):
    data = json.loads(Path(path).read_text())
    case = data['case'] if 'case' in data else data
    if isinstance(case, dict) and '__shard__' in case:
        # a failing history: the shard's generated sequence, re-run from its seed
        sp = case['__shard__']
        r = _worker((mod.__name__, sp['tier'], sp['seed'], sp['index'], sp['nshards'], time.time() + 3600, sp['params']))
        if 'harness_error' in r:
            print(f'HARNESS-ERROR replaying shard history:\n{r["harness_error"]}')
            return 2
        hits = r['fails'].get(case['bucket'])
        if not hits:
            print(f'replay {path}: the recorded bucket did not fail in this shard history')
            return 0
        print(f'VIOLATION property={mod.PROPERTY} replay={path}')
        print('   ', case['bucket'], json.dumps(jsonable(hits[0][1]))[:1500])
        return 1
    d = safe_replay(mod, case, 60)
    if d is None:
        print(f'replay {path}: property holds on this case')
        return 0
    print(f'VIOLATION property={mod.PROPERTY} replay={path}')
    print('   ', json.dumps(jsonable(d))[:1500])
    return 1
