"""helpers around the tatsu public API: canonical outcomes, wrapper rule, generated parsers"""
from __future__ import annotations

import os
import sys
import types

WRAP = "\nVF_WRAP: v=%s rest=VF_REST ;\n\nVF_REST: /(?s).*/ ;\n"


def harness_fault(e):
    """a NameError / ImportError raised from a frame of the harness itself is a bug of the harness (exit 2), never an observed outcome"""
    if not isinstance(e, (NameError, ImportError)):
        return False
    tb = e.__traceback__
    if tb is None:
        return False
    while tb.tb_next is not None:
        tb = tb.tb_next
    here = os.path.dirname(os.path.abspath(__file__))
    return os.path.abspath(tb.tb_frame.f_code.co_filename).startswith(here + os.sep)


class Typed:
    """a bool or float in a canonical form: equal only to the same value of the same type (True == 1 == 1.0 in Python,
    and an oracle that cannot tell them apart is blind to a value that came back as another type)"""
    __slots__ = ('v',)

    def __init__(self, v):
        self.v = v

    def __eq__(self, other):
        return isinstance(other, Typed) and type(self.v) is type(other.v) and (self.v == other.v or (self.v != self.v and other.v != other.v))

    def __ne__(self, other):
        return not self.__eq__(other)

    def __hash__(self):
        return hash((type(self.v).__name__, self.v))

    def __repr__(self):
        return repr(self.v)

    def __reduce__(self):
        return (Typed, (self.v,))


def canon(x, keep_parseinfo=False, depth=0):
    """my own canonical form of an AST / node tree (does not use asjson)"""
    if depth > 200:
        return '<deep>'
    from tatsu.objectmodel import Node
    if isinstance(x, dict):
        return {str(k): canon(v, keep_parseinfo, depth + 1) for k, v in sorted(x.items(), key=lambda kv: str(kv[0]))
                if keep_parseinfo or k not in ('parseinfo', '__parseinfo__')}
    if isinstance(x, (list, tuple)):
        return [canon(v, keep_parseinfo, depth + 1) for v in x]
    if isinstance(x, Node):
        d = {'__node__': type(x).__name__}
        for k, v in vars(x).items():
            if k.startswith('_') or k in ('parseinfo', 'ctx'):
                continue
            d[k] = canon(v, keep_parseinfo, depth + 1)
        if 'ast' in d and len(d) > 2:
            pass
        return d
    if isinstance(x, (bool, float)):
        return Typed(x)
    if isinstance(x, (str, int)) or x is None:
        return x
    if isinstance(x, Typed):
        return x
    return repr(x)


def outcome(f):
    """('ok', canon) | ('fail', ExcName, pos) | ('exc', ExcName, msg)"""
    from tatsu.exceptions import FailedParse, ParseException
    try:
        return ('ok', canon(f()))
    except FailedParse as e:
        return ('fail', type(e).__name__, e.pos)
    except ParseException as e:
        return ('fail', type(e).__name__, -1)
    except RecursionError:
        return ('exc', 'RecursionError', '')
    except Exception as e:  # anything else is reported as such
        return ('exc', type(e).__name__, str(e)[:200])


def same_outcome(a, b, positions=False):
    if a[0] != b[0]:
        return False
    if a[0] == 'ok':
        return a[1] == b[1]
    if a[0] == 'fail':
        return True if not positions else a[1:] == b[1:]
    return a[1] == b[1]


def compile_grammar(text, **kw):
    import tatsu
    return tatsu.compile(text, **kw)


def wrapped_text(gtext, start):
    return gtext + WRAP % start


def parse_wrapped(model, text, **kw):
    """parse through the wrapper rule; returns ('ok', consumed, canon(value)) | ('fail', ...) | ('exc', ...)"""
    from tatsu.exceptions import FailedParse, ParseException
    try:
        a = model.parse(text, start='VF_WRAP', **kw)
    except FailedParse as e:
        return ('fail', type(e).__name__, e.pos)
    except ParseException as e:
        return ('fail', type(e).__name__, -1)
    except RecursionError:
        return ('exc', 'RecursionError', '')
    except Exception as e:
        return ('exc', type(e).__name__, str(e)[:200])
    try:
        return ('ok', len(text) - len(a['rest']), canon(a['v']))
    except Exception as e:
        return ('exc', 'wrapper:' + type(e).__name__, repr(a)[:200])


_modcount = [0]


def load_generated(src, prefix='vfgen'):
    """exec generated python source in a fresh module registered in sys.modules; returns the module"""
    _modcount[0] += 1
    name = f'{prefix}_{_modcount[0]}'
    code = compile(src, f'<{name}>', 'exec')
    mod = types.ModuleType(name)
    sys.modules[name] = mod
    try:
        exec(code, mod.__dict__)
    except BaseException:
        sys.modules.pop(name, None)
        raise
    return mod


def unload(mod):
    sys.modules.pop(mod.__name__, None)


def find_parser_class(mod):
    for k, v in vars(mod).items():
        if isinstance(v, type) and k.endswith('Parser') and v.__module__ == mod.__name__:
            return v
    return None
