"""My own grammar AST (GAST), independent of tatsu's classes, and a printer to TatSu syntax.

Expressions are nested tuples (JSON-friendly; `tup` restores tuples after a JSON round trip):
  ('tok', text)            ('pat', regex)          ('seq', (e, ...))      ('alt', (e, ...))
  ('grp', e)               ('skipgrp', e)          ('opt', e)             ('star', e)   ('plus', e)
  ('join', sep, e, positive, gather)               ('and', e)  ('not', e) ('call', name)
  ('named', name, e)       ('namedl', name, e)     ('ovr', e)  ('ovrl', e)
  ('const', text)          ('alert', text, level)  ('void',)   ('fail',)  ('eof',)  ('eol',)
  ('dot',)                 ('skipto', e)           ('empty',)  ('cut',)   ('inc', rulename)
  ('meta', 'int'|'uint'|'float'|'bool'|'name')
A rule is a dict: name, exp, params (tuple), kwparams (dict), decorators (tuple), base (str|None)
A grammar is a dict: directives (list of (name, value-text)), keywords (list), rules (list of rule dicts)
For brevity most checks use `rules` = list of (name, exp) pairs and wrap them with `grammar()`.
"""
from __future__ import annotations

ATOMS = {'tok', 'pat', 'call', 'void', 'eof', 'eol', 'dot', 'empty', 'const', 'grp', 'skipgrp', 'opt',
         'star', 'plus', 'cut', 'fail', 'meta', 'alert'}
BOX1 = ('grp', 'skipgrp', 'opt', 'star', 'plus', 'and', 'not', 'ovr', 'ovrl', 'skipto')


def tup(x):
    if isinstance(x, (list, tuple)):
        return tuple(tup(v) for v in x)
    return x


def q(s):
    """quote a token text"""
    if "'" not in s and '\\' not in s and '\n' not in s:
        return "'" + s + "'"
    if '"' not in s and '\\' not in s and '\n' not in s:
        return '"' + s + '"'
    return "'" + s.replace('\\', '\\\\').replace("'", "\\'").replace('\n', '\\n') + "'"


def pat_text(p):
    if p == '.':
        return "?'.'"       # /./ is the any-character expression, not a pattern
    if '/' not in p:
        return '/' + p + '/'
    if '"' not in p:
        return '?"' + p + '"'
    return "?'" + p + "'"


def term(e):
    s = pp(e)
    if e[0] in ATOMS or e[0] == 'join':
        return s
    return '(' + s + ')'


def pp(e):
    k = e[0]
    if k == 'tok':
        return q(e[1])
    if k == 'pat':
        return pat_text(e[1])
    if k == 'seq':
        return ' '.join(pp(x) if x[0] != 'alt' else '(' + pp(x) + ')' for x in e[1])
    if k == 'alt':
        return ' | '.join(pp(x) if x[0] != 'alt' else '(' + pp(x) + ')' for x in e[1])
    if k == 'grp':
        return '(' + pp(e[1]) + ')'
    if k == 'skipgrp':
        return '(?:' + pp(e[1]) + ')'
    if k == 'opt':
        return '[' + pp(e[1]) + ']'
    if k == 'star':
        return '{' + pp(e[1]) + '}'
    if k == 'plus':
        return '{' + pp(e[1]) + '}+'
    if k == 'join':
        _, sep, x, positive, gather = e
        # gather: False -> s%{e}, True -> s.{e}, 'left' / 'right' -> the (deprecated, always positive) associative joins s<{e}+ and s>{e}+
        op = {'left': '<', 'right': '>'}.get(gather) or ('.' if gather else '%')
        s = pp(sep) if sep[0] in ('tok', 'pat') else '(' + pp(sep) + ')'
        return s + op + '{' + pp(x) + '}' + ('+' if positive or gather in ('left', 'right') else '')
    if k == 'and':
        return '&' + term(e[1])
    if k == 'not':
        return '!' + term(e[1])
    if k == 'call':
        return e[1]
    if k == 'inc':
        return '>' + e[1]
    if k == 'named':
        return e[1] + '=' + term(e[2])
    if k == 'namedl':
        return e[1] + '+=' + term(e[2])
    if k == 'ovr':
        return '@:' + term(e[1])
    if k == 'ovrl':
        return '@+:' + term(e[1])
    if k == 'const':
        return ('```' + e[1] + '```') if '\n' in e[1] or '`' in e[1] else ('`' + e[1] + '`')
    if k == 'alert':
        return '^' * e[2] + (('```' + e[1] + '```') if '\n' in e[1] or '`' in e[1] else ('`' + e[1] + '`'))
    if k == 'void':
        return '()'
    if k == 'fail':
        return '!()'
    if k == 'eof':
        return '$'
    if k == 'eol':
        return '$->'
    if k == 'dot':
        return '/./'
    if k == 'skipto':
        return '->' + term(e[1])
    if k == 'empty':
        return '{}'
    if k == 'cut':
        return '~'
    if k == 'meta':
        return '@' + e[1]
    raise ValueError(k)


def param_text(p):
    if isinstance(p, str):
        if p.isidentifier() and p not in ('True', 'False', 'None'):
            return p
        return q(p)      # a string that reads as another literal (True, 1, 2d) stays a string only if it is quoted
    return repr(p)


def rule_text(r):
    if isinstance(r, (tuple, list)):
        name, exp = r
        return f'{name}: {pp(exp)} ;'
    out = ''
    for d in r.get('decorators', ()):  # 'name', 'nomemo', 'override'
        out += f'@{d}\n'
    out += r['name']
    params = [param_text(p) for p in r.get('params', ())]
    params += [f'{k}={param_text(v)}' for k, v in (r.get('kwparams') or {}).items()]
    if params:
        out += '[' + ', '.join(params) + ']'
    if r.get('base'):
        out += ' < ' + r['base']
    out += ': ' + pp(r['exp']) + ' ;'
    return out


def grammar_text(rules, directives=(), keywords=()):
    """rules: list of (name, exp) or rule dicts; directives: list of (name, value-text)"""
    out = ''
    for name, val in directives:
        out += f'@@{name} :: {val}\n'
    if directives:
        out += '\n'
    if keywords:
        # the parenthesised form: the bare form swallows a following rule name when the rule has [params]
        out += '@@keyword :: (' + ' '.join(kw if kw.isalnum() else q(kw) for kw in keywords) + ')\n\n'
    return out + '\n\n'.join(rule_text(r) for r in rules) + '\n'


# ---------------------------------------------------------------- structure helpers
def children(e):
    k = e[0]
    if k in ('seq', 'alt'):
        return list(e[1])
    if k in BOX1:
        return [e[1]]
    if k in ('named', 'namedl'):
        return [e[2]]
    if k == 'join':
        return [e[1], e[2]]
    return []


def walk(e):
    yield e
    for c in children(e):
        yield from walk(c)


def node_types(e):
    return {x[0] for x in walk(e)}


def size(e):
    return sum(1 for _ in walk(e))


def names_in(e, out=None):
    """syntactic names (single, list) through enclosures, not through calls"""
    if out is None:
        out = ([], [])
    k = e[0]
    if k == 'named':
        out[0].append(e[1])
        names_in(e[2], out)
    elif k == 'namedl':
        out[1].append(e[1])
        names_in(e[2], out)
    else:
        for c in children(e):
            names_in(c, out)
    return out


def calls_in(e):
    return [x[1] for x in walk(e) if x[0] in ('call', 'inc')]


def replace_children(e, new):
    """rebuild e with the given list of children"""
    k = e[0]
    if k in ('seq', 'alt'):
        return (k, tuple(new))
    if k in BOX1:
        return (k, new[0])
    if k in ('named', 'namedl'):
        return (k, e[1], new[0])
    if k == 'join':
        return (k, new[0], new[1], e[3], e[4])
    return e


def shrink_exp(e):
    """yield structurally smaller expressions (for the greedy shrinker)"""
    cs = children(e)
    for c in cs:
        yield c
    k = e[0]
    if k in ('seq', 'alt') and len(cs) > 1:
        for i in range(len(cs)):
            rest = cs[:i] + cs[i + 1:]
            yield rest[0] if len(rest) == 1 else (k, tuple(rest))
    if k == 'tok' and len(e[1]) > 1:
        yield ('tok', e[1][:1])
    if k in ('plus',):
        yield ('star', e[1])
    for i, c in enumerate(cs):
        for c2 in shrink_exp(c):
            new = list(cs)
            new[i] = c2
            yield replace_children(e, new)


def shrink_rules(rules):
    """rules: list of (name, exp). yields smaller rule lists (never removes a rule that is still called)"""
    rules = [(n, tup(x)) for n, x in rules]
    for i in range(len(rules) - 1, 0, -1):
        name = rules[i][0]
        others = rules[:i] + rules[i + 1:]
        if not any(name in calls_in(x) for _, x in others):
            yield others
    for i, (n, x) in enumerate(rules):
        for x2 in shrink_exp(x):
            yield rules[:i] + [(n, x2)] + rules[i + 1:]
    # inline: replace a call by a token
    for i, (n, x) in enumerate(rules):
        for c in set(calls_in(x)):
            def rep(e):
                if e[0] == 'call' and e[1] == c:
                    return ('tok', 'a')
                return replace_children(e, [rep(y) for y in children(e)])
            yield rules[:i] + [(n, rep(x))] + rules[i + 1:]
