"""C06 — semantic actions receive each rule's AST and their result replaces it.

Oracle: RefPEG extended with actions (vf.refpeg.Ref(actions=...)): the action runs after every successful
body evaluation with the folded AST and the rule's parameters; RefFailedSemantics makes that invocation
fail; any other exception aborts the parse.  Compared with the model and with the generated parser.
"""
from __future__ import annotations

from collections import Counter

from vf import gen, tu
from vf.core import hyp_run, reset_tatsu_state, watchdog, CaseTimeout
from vf.gast import grammar_text, node_types, shrink_rules, tup
from vf.refpeg import Ref, RefFailedSemantics

PROPERTY = 'C06'
HISTORY_CONFIRM = True   # a failure that needs the process history is confirmed by re-running its shard from the seed
RULE = ('C01-style generated grammars with rule parameters and @nomemo rules (and, in 15 % of the cases, layered left-recursive grammars from vf.lrgen, outcome and AST only) x 5 inputs x a semantics object drawn from {identity, tagging '
        '(wraps the value with rule name and parameters), _default only, mixed named methods + _default, fail-on-value (FailedSemantics when '
        'the AST equals a value taken from the reference trace), raise-on-value with an exception class from {KeyError, IndexError, '
        'ValueError, TypeError("... arguments ..."), AttributeError, RuntimeError, AssertionError, LookupError, custom Exception}}; run on '
        'the model and on the generated parser; oracle: RefPEG with the same actions: same outcome/AST, the set of (rule, ast, params) '
        'calls equals the reference\'s and no call happens more often than in the memo-free reference, @nomemo rules are called exactly as '
        'often, identity == no semantics, a foreign exception reaches the caller as the same object. non-trivial = at least one action ran '
        'and (for predicate semantics) the predicate fired; distinct = distinct (grammar, input, semantics)')
ASSUMPTIONS = [
    'RefPEG is memo-free, so it is an upper bound for how often an action may run; memoized replay may skip calls (the statement allows it)',
    'AST comparison obeys the U-flags of RefPEG; call-log comparison is skipped when an accept-affecting flag (U2,U7,U11,U12) is raised',
]
BUDGET_S = {'quick': 150, 'thorough': 1500}
ACCEPT_FLAGS = {'U2', 'U7', 'U11', 'U12', 'LR'}


class Custom(Exception):
    pass


EXC = {
    'KeyError': lambda: KeyError('vf-key'), 'IndexError': lambda: IndexError('vf-index'), 'ValueError': lambda: ValueError('vf-value'),
    'TypeError-arguments': lambda: TypeError('vf: takes 1 positional arguments but 2 were given'),
    'TypeError': lambda: TypeError('vf-type'), 'AttributeError': lambda: AttributeError('vf-attr'),
    'RuntimeError': lambda: RuntimeError('vf-runtime'), 'AssertionError': lambda: AssertionError('vf-assert'),
    'LookupError': lambda: LookupError('vf-lookup'), 'Custom': lambda: Custom('vf-custom'),
    # exception types that Python's own protocols give a meaning to (iteration, generators used as context managers)
    'StopIteration': lambda: StopIteration('vf-stop'), 'StopAsyncIteration': lambda: StopAsyncIteration('vf-astop'),
    # TatSu's own exception family, other than parse failures: "any other exception reaches the caller unchanged"
    'tatsu.ParseError': lambda: _tx('ParseError')('vf-parse-error'), 'tatsu.GrammarError': lambda: _tx('GrammarError')('vf-grammar-error'),
    'ParseException-subclass': lambda: _tx_sub()('vf-sub'),
}


def _tx(name):
    import tatsu.exceptions as X
    return getattr(X, name)


_sub = []


def _tx_sub():
    if not _sub:
        import tatsu.exceptions as X

        class VfParseException(X.ParseException):
            pass
        _sub.append(VfParseException)
    return _sub[0]


def canon_key(x):
    return repr(tu.canon(x))


class Sem:
    """semantics description shared by the reference and the real semantics object"""

    def __init__(self, kind, rulenames, target=None, exc=None, named=(), shapes=None, flavor='plain', listers=()):
        self.listers = set(listers)   # 'listing': the rules whose action returns a plain list (prefix rewriting [op, left, right] of left-recursive rules)
        self.flavor = flavor        # plain | unhashable (defines __eq__ only, like a plain @dataclass) | equal (every instance ==, same hash: a frozen dataclass) | falsy (__len__ is 0)
        self.kind = kind            # identity | tagging | default_only | mixed | fail_on | raise_on
        self.rulenames = rulenames
        self.target = target        # (rule, canon_key) for predicate kinds
        self.exc = exc
        self.named = set(named)     # rules that get their own method in 'mixed'
        self.raised = None
        self.shapes = shapes or {}   # rule -> 'A' (ast, *args, **kw) | 'B' (ast, p1, *rest, **kw) | 'C' (ast, p1, p2, **kw) | 'D' (ast)

    def result(self, rule, ast, params, kwparams, log, real):
        """common behaviour; `real` tells which side (for the exception classes)"""
        log.append((rule, canon_key(ast), canon_key(list(params)), canon_key(sorted(kwparams.items()))))
        k = self.kind
        if k in ('fail_on', 'raise_on') and self.target == (rule, canon_key(ast)):
            if k == 'fail_on':
                if real:
                    from tatsu.exceptions import FailedSemantics
                    raise FailedSemantics('vf: rejected')
                raise RefFailedSemantics()
            if real:
                self.raised = EXC[self.exc]()
                raise self.raised
            raise RefAbort()
        if k == 'listing':
            # a plain list is a value like any other: it must stay ONE operand when the left-recursive rule takes it as its seed
            return ['L', rule, ast] if rule in self.listers else ('T', rule, ast)
        if k == 'tagging':
            return ('T', rule, ast, tuple(params), tuple(sorted(kwparams.items())))  # a tuple: lists returned by actions are spliced (F-C01-a)
        return ast

    def has_method(self, rule):
        if self.kind == 'default_only':
            return False
        if self.kind == 'mixed':
            return rule in self.named
        return True

    def make_object(self, log):
        sem = self
        from tatsu.util import safe_name

        def make(rule):
            shape = sem.shapes.get(rule, 'A')
            if shape == 'B':
                def method(self_, ast, p1, *rest, **kwargs):
                    kwargs.pop('parseinfo', None)
                    return sem.result(rule, ast, (p1, *rest), kwargs, log, True)
            elif shape == 'C':
                def method(self_, ast, p1, p2, **kwargs):
                    kwargs.pop('parseinfo', None)
                    return sem.result(rule, ast, (p1, p2), kwargs, log, True)
            elif shape == 'D':
                def method(self_, ast):
                    return sem.result(rule, ast, (), {}, log, True)
            else:
                def method(self_, ast, *args, **kwargs):
                    kwargs.pop('parseinfo', None)
                    return sem.result(rule, ast, args, kwargs, log, True)
            method.__name__ = safe_name(rule)
            return method
        ns = {}
        for r in self.rulenames:
            if self.has_method(r):
                ns[safe_name(r)] = make(r)
        # the harness's wrapper rules are not part of the grammar under test: pass through, unlogged
        ns['VF_WRAP'] = ns['VF_REST'] = lambda self_, ast, *a, **k: ast
        if self.kind in ('default_only', 'mixed'):
            def _default(self_, ast, *args, **kwargs):
                kwargs.pop('parseinfo', None)
                return sem.result('<default>', ast, args, kwargs, log, True)
            ns['_default'] = _default
        if self.flavor == 'unhashable':
            ns['__eq__'] = lambda self_, other: self_ is other
            ns['__hash__'] = None
        elif self.flavor == 'falsy':
            ns['__len__'] = lambda self_: 0      # e.g. a semantics class that is also the (still empty) collection of what it has seen
        elif self.flavor == 'equal':
            ns['__eq__'] = lambda self_, other: getattr(other, '_vf_equal', False)
            ns['__hash__'] = lambda self_: 7
            ns['_vf_equal'] = True
        if self.flavor == 'data-attributes':
            # a semantics object also keeps data (counters, lists of what it has seen), some of it named like rules: a data attribute is not
            # an action, and the rules without a method of their own still go to _default
            for i, r in enumerate(self.rulenames):
                if not self.has_method(r):
                    key, val = [(safe_name(r), 0), ('_' + r, []), ('_' + r + '_', 'seen'), (safe_name(r), ('a',))][i % 4]
                    ns.setdefault(key, val)
        return type('VfSem', (), ns)()

    def ref_actions(self, log):
        def actions(rule, value, params, kwparams):
            if self.has_method(rule):
                if self.shapes.get(rule) == 'D':   # an action declared as (self, ast) cannot observe the parameters
                    params, kwparams = (), {}
                return self.result(rule, value, params, kwparams, log, False)
            if self.kind in ('default_only', 'mixed'):
                return self.result('<default>', value, params, kwparams, log, False)
            return value
        return actions

    def describe(self):
        return dict(kind=self.kind, target=self.target, exc=self.exc, named=sorted(self.named), flavor=self.flavor, listers=sorted(self.listers))


class RefAbort(Exception):
    pass


def rule_dicts(rules, ruleinfo):
    out = []
    for n, x in rules:
        d = dict(name=n, exp=x)
        d.update(ruleinfo.get(n, {}))
        out.append(d)
    return out


_n = [0]


def check(rules, ruleinfo, start, text, semd, cache=None, history=None, lr=False):
    """semd: dict(kind, target, exc, named).  returns (detail|None, info)"""
    import tatsu
    rules = [(n, tup(x)) for n, x in rules]
    ruleinfo = {k: {kk: (tuple(vv) if isinstance(vv, list) else vv) for kk, vv in v.items()} for k, v in (ruleinfo or {}).items()}
    rd = rule_dicts(rules, ruleinfo)
    names = [n for n, _ in rules]
    target = tuple(semd['target']) if semd.get('target') else None
    info = {}
    if cache is not None and 'model' in cache:
        model, cls = cache['model'], cache['cls']
    else:
        _n[0] += 1
        gtext = tu.wrapped_text(grammar_text(rd), start)
        try:
            model = tatsu.compile(gtext, name=f'Vf06n{_n[0]}')
        except Exception as e:
            return dict(bucket=f'compile:{type(e).__name__}', oracle='grammar compiles', observed=str(e)[:300]), info
        cls = None
        try:
            src = tatsu.to_python_sourcecode(gtext, name=f'Vf06n{_n[0]}')
            mod = tu.load_generated(src, 'vf06gen')
            cls = tu.find_parser_class(mod)
            if cache is not None:
                cache['mod'] = mod
        except Exception:
            cls = None  # C02's subject
        if cache is not None:
            cache.update(model=model, cls=cls)
    # reference
    sem = Sem(semd['kind'], names, target, semd.get('exc'), semd.get('named', ()), semd.get('shapes'), semd.get('flavor', 'plain'), semd.get('listers', ()))
    rlog = []
    nomemo = {n for n in names if 'nomemo' in (ruleinfo.get(n, {}).get('decorators') or ())}
    ref = Ref(rd, text, actions=sem.ref_actions(rlog))
    try:
        r = ref.parse(start)
        aborted = False
    except RefAbort:
        r = ('abort',)
        aborted = True
    info.update(ref=r[0], flags=sorted(ref.flags), fired=aborted or ('failed' in [c[1] for c in ref.calls]), ncalls=len(rlog))
    # left-recursive case family (vf.lrgen): the reference grows the seed, outcome and AST are compared, call logs are not
    # (how often a body is re-evaluated while a seed grows is an implementation matter)
    rflags = set(ref.flags) - ({'LR'} if lr else set())
    if r[0] == 'budget' or rflags & ACCEPT_FLAGS:
        return None, info
    if ref.openlist_values:
        info['unjudged'] = True   # known finding F-C01-a changes the ASTs the actions see
        return None, info
    if rflags and semd['kind'] in ('fail_on', 'raise_on'):
        info['unjudged'] = True   # the predicate looks at AST values; with an unspecified-value flag raised it may fire differently
        return None, info
    rr = ('fail',) if r[0] == 'fail' else ('abort',) if aborted else ('ok', r[1], tu.canon(r[2]))
    rcount = Counter(c for c in rlog if c[0] not in ('VF_WRAP', 'VF_REST'))
    from vf.props.c02 import single_item
    from vf.gast import walk
    lastnode_shapes = any((e[0] in ('named', 'namedl') and not single_item(e[2])) or (e[0] in ('ovr', 'ovrl') and not single_item(e[1]))
                          for _, x in rules for e in walk(x))
    has_skipto = any(e[0] == 'skipto' for _, x in rules for e in walk(x))
    for side, parser in (('model', model), ('generated', cls)):
        if parser is None:
            continue
        if side == 'generated' and lastnode_shapes:
            info['generated_skipped'] = True   # known finding F-C02-a changes the ASTs the generated parser's actions see
            continue
        log = []
        semobj = sem.make_object(log)
        sem.raised = None
        exc = None
        try:
            with watchdog(10):
                if side == 'model':
                    if cache is None:
                        for ptext, psemd in (history or []):     # replay: the earlier parses of the case, with their semantics objects
                            psem = Sem(psemd['kind'], names, tuple(psemd['target']) if psemd.get('target') else None, psemd.get('exc'),
                                       psemd.get('named', ()), psemd.get('shapes'), psemd.get('flavor', 'plain'), psemd.get('listers', ()))
                            _model_parse(model, ptext, psem.make_object([]))
                    t = _model_parse(model, text, semobj)
                else:
                    if cache is not None:
                        inst = cache.setdefault('instance', cls())   # one parser object reused across the inputs of a case (history)
                    else:
                        inst = cls()
                        for ptext, psemd in (history or []):     # replay: re-create the history on a fresh instance
                            plog = []
                            psem = Sem(psemd['kind'], names, tuple(psemd['target']) if psemd.get('target') else None, psemd.get('exc'),
                                       psemd.get('named', ()), psemd.get('shapes'), psemd.get('flavor', 'plain'), psemd.get('listers', ()))
                            _parse_gen(inst, ptext, psem.make_object(plog))
                    t = _parse_gen(inst, text, semobj)
        except CaseTimeout:
            info['timeout'] = True
            return None, info
        if isinstance(t, tuple) and t[0] == 'raised':
            exc = t[1]
        # tagging wraps the wrapper rule's value too: unwrap what VF_WRAP/VF_REST added
        if aborted:
            if exc is None:
                return dict(bucket=f'{side}:exception-lost:{semd.get("exc")}', oracle='an exception raised by an action reaches the caller unchanged',
                            expected=semd.get('exc'), observed=t), info
            if exc is not sem.raised:
                return dict(bucket=f'{side}:exception-changed:{semd.get("exc")}', oracle='the exception object that reaches the caller is the one the action raised',
                            expected=repr(sem.raised), observed=repr(exc)), info
            continue
        if exc is not None:
            return dict(bucket=f'{side}:unexpected-exception:{type(exc).__name__}', oracle='no exception where the reference action raises none',
                        observed=repr(exc)[:200], reference=rr), info
        t = unwrap(t, semd['kind'], text)
        if t[0] == 'exc':
            return dict(bucket=f'{side}:exc:{t[1]}', oracle='parse returns or fails with a parse error', observed=t, reference=rr), info
        if t[0] != rr[0]:
            return dict(bucket=f'{side}:accept', oracle='outcome agrees with RefPEG running the same actions '
                        '(FailedSemantics = that invocation fails, alternatives are tried)', expected=rr, observed=t), info
        if t[0] == 'ok' and t[1] != rr[1]:
            return dict(bucket=f'{side}:length', oracle='consumed length agrees with RefPEG running the same actions', expected=rr, observed=t), info
        if t[0] == 'ok' and not rflags and t[2] != rr[2]:
            return dict(bucket=f'{side}:ast', oracle='the value an action returns becomes the rule\'s value for its callers', expected=rr, observed=t), info
        if not ref.flags:
            tcount = Counter(c for c in log if c[0] not in ('VF_WRAP', 'VF_REST'))
            extra = [c for c in tcount if c not in rcount]
            if extra:
                return dict(bucket=f'{side}:call-not-in-reference', oracle='every action call is (rule, AST of the right-hand side, declared parameters) '
                            'of a successful body evaluation', extra=extra[:3], reference_calls=sorted(rcount)[:6]), info
            missing = [c for c in rcount if c not in tcount]
            if missing:
                return dict(bucket=f'{side}:call-missing', oracle='every successful rule evaluation calls its action at least once', missing=missing[:3]), info
            over = [(c, tcount[c], rcount[c]) for c in tcount if tcount[c] > rcount[c]]
            if over:
                return dict(bucket=f'{side}:called-too-often', oracle='an action never runs more often than in a memo-free evaluation', over=over[:3]), info
            for c in rcount:
                # exact only when no rule is memoized: a memoized caller legitimately hides re-invocations of a @nomemo callee
                if nomemo == set(names) and tcount[c] != rcount[c] and not has_skipto:
                    return dict(bucket=f'{side}:nomemo-count', oracle='a @nomemo rule evaluates body and action on every invocation',
                                call=c, expected=rcount[c], observed=tcount[c]), info
    return None, info


def _parse_gen(inst, text, semobj):
    from tatsu.exceptions import FailedParse, ParseException
    try:
        a = inst.parse(text, start='VF_WRAP', semantics=semobj)
    except FailedParse as e:
        return ('fail', type(e).__name__, e.pos)
    except ParseException as e:
        return ('raised', e)     # not a parse failure: an exception of TatSu's family that an action raised (or a defect)
    except RecursionError:
        return ('exc', 'RecursionError', '')
    except Exception as e:
        return ('raised', e)
    return ('okraw', a)


def unwrap(t, kind, text):
    if t[0] == 'okraw':
        a = t[1]
        try:
            return ('ok', len(text) - len(a['rest']), tu.canon(a['v']))
        except Exception:
            return ('exc', 'wrapper', repr(a)[:200])
    return t


def _model_parse(model, text, semobj):
    from tatsu.exceptions import FailedParse, ParseException
    try:
        a = model.parse(text, start='VF_WRAP', semantics=semobj)
    except FailedParse as e:
        return ('fail', type(e).__name__, e.pos)
    except ParseException as e:
        return ('raised', e)     # not a parse failure: an exception of TatSu's family that an action raised (or a defect)
    except RecursionError:
        return ('exc', 'RecursionError', '')
    except Exception as e:
        return ('raised', e)
    return ('okraw', a)


def plan(tier):
    n = 350 if tier == 'quick' else 5000
    return [dict(n=n) for _ in range(16)]


def make_case(rnd):
    gcfg = gen.GenCfg(cut=rnd.random() < 0.2)
    rules = gen.gen_rules(rnd, gcfg)
    ruleinfo = {}
    all_nomemo = rnd.random() < 0.25
    for n, _ in rules:
        r = rnd.random()
        if all_nomemo:
            ruleinfo.setdefault(n, {})['decorators'] = ('nomemo',)
        if r < 0.25:
            ruleinfo.setdefault(n, {})['params'] = tuple(rnd.choice([('Tp',), ('Tp', 'x'), (7,)]))
            if rnd.random() < 0.4:
                ruleinfo[n]['kwparams'] = {'k': rnd.choice(['v', 3])}
        if rnd.random() < 0.2 and not all_nomemo:
            ruleinfo.setdefault(n, {})['decorators'] = ('nomemo',)
    return rules, ruleinfo, rules[0][0]


SCALARS = [('a', '1'), ('b', 'True'), ('c', '1.0'), ('d', '0'), ('e', 'False'), ('f', '0.0'), ('h', '2')]


def make_scalar_case(rnd):
    """a rule whose value is a bare scalar that varies in type but not in value (1 / True / 1.0 / '1'): the action must
    receive the AST of this evaluation, whatever equal value it received before"""
    alts = rnd.sample(SCALARS, rnd.randint(3, 6))
    v = ('alt', tuple(('seq', (('skipgrp', ('tok', t)), ('const', c))) for t, c in alts))
    rules = [('start', ('seq', (('star', ('call', 'v')), ('eof',)))), ('v', v)]
    inputs = [' '.join(rnd.choice(alts)[0] for _ in range(rnd.randint(2, 7))) for _ in range(5)]
    return rules, {}, 'start', inputs


def make_lr_case(rnd):
    from vf import lrgen
    spec = lrgen.gen_spec(rnd, shapes=('direct', 'named', 'optpref', 'split'))   # aliased shapes are C03's (finding F-C03-a)
    rules = lrgen.level_rules(spec)
    inputs = [lrgen.gen_input(rnd, spec, rnd.choice([3, 5, 7])) for _ in range(5)]
    # left-recursive leaders that never stand first in another rule's multi-element sequence (there a list value is spliced: finding F-C01-a)
    lv = spec['levels']
    listers = [l['rule'] for i, l in enumerate(lv) if l['kind'] == 'left' and l.get('shape') in ('direct', 'optpref') and (i == 0 or lv[i - 1]['kind'] != 'right')]
    return rules, {'__listers__': listers}, lrgen.start_rule(spec), inputs


def run_shard(sh, n):
    def body(rnd):
        reset_tatsu_state()
        r0 = rnd.random()
        lr = r0 < 0.15
        listers = []
        if lr:
            rules, ruleinfo, start, lr_inputs = make_lr_case(rnd)
            listers = ruleinfo.pop('__listers__', [])
            fixed_inputs = None
        elif r0 < 0.2:
            rules, ruleinfo, start, fixed_inputs = make_scalar_case(rnd)
        else:
            fixed_inputs = None
            rules, ruleinfo, start = make_case(rnd)
        cache = {}
        history = []
        gtext = grammar_text(rule_dicts(rules, ruleinfo))
        names = [nm for nm, _ in rules]
        try:
            for text in (lr_inputs if lr else fixed_inputs if fixed_inputs else gen.gen_inputs(rnd, rules, start, 5)):
                # a plain reference run to pick predicate targets from
                plain = Ref(rule_dicts(rules, ruleinfo), text)
                plain.parse(start)
                kind = rnd.choice(['identity', 'tagging', 'tagging', 'default_only', 'mixed', 'fail_on', 'fail_on', 'raise_on', 'raise_on'] + (['listing'] * 3 if listers else []))
                semd = dict(kind=kind, target=None, exc=None, named=[nm for nm in names if rnd.random() < 0.5], shapes={},
                            flavor=rnd.choice(['plain', 'plain', 'unhashable', 'equal', 'falsy', 'data-attributes']), listers=listers if kind == 'listing' else [])
                for nm in names:
                    np_ = len(ruleinfo.get(nm, {}).get('params') or ())
                    opts = ['A', 'A', 'D'] + (['B'] if np_ >= 1 else []) + (['C'] if np_ == 2 else [])
                    semd['shapes'][nm] = rnd.choice(opts)
                if kind in ('fail_on', 'raise_on'):
                    cands = [(nm, canon_key(v)) for nm, _, _, v in plain.trace]
                    if not cands:
                        semd['kind'] = 'identity'
                    else:
                        semd['target'] = list(rnd.choice(cands))
                        if kind == 'raise_on':
                            semd['exc'] = rnd.choice(sorted(EXC))
                d, info = check(rules, ruleinfo, start, text, semd, cache, lr=lr)
                hist = list(history)
                history.append((text, semd))
                if 'model' not in cache:
                    if d is not None:
                        sh.fail(d['bucket'], dict(rules=rules, ruleinfo=ruleinfo, start=start, input=text, sem=semd), d)
                    return
                nt = info.get('ncalls', 0) > 0 and (semd['kind'] not in ('fail_on', 'raise_on') or info.get('fired'))
                cls = [f'sem:{semd["kind"]}', f'ref:{info.get("ref")}', f'semantics-object:{semd["flavor"]}']
                if fixed_inputs:
                    cls.append('scalar-valued rule (1 / True / 1.0)')
                if lr:
                    cls.append('left-recursive grammar' + (' + predicate fired' if info.get('fired') else ''))
                if semd.get('exc'):
                    cls.append(f'exc:{semd["exc"]}')
                if info.get('fired'):
                    cls.append('predicate-fired')
                if any('nomemo' in (v.get('decorators') or ()) for v in ruleinfo.values()):
                    cls.append('has-nomemo-rule')
                if all('nomemo' in (ruleinfo.get(nm, {}).get('decorators') or ()) for nm in names):
                    cls.append('all-rules-nomemo (exact call counts)')
                if any(v.get('params') for v in ruleinfo.values()):
                    cls.append('has-params')
                for f in info.get('flags', []):
                    sh.flag(f)
                sh.case((gtext, text, canon_key(semd)), nt, cls, sample=dict(grammar=gtext, input=text, semantics=semd))
                if d is not None:
                    sh.fail(d['bucket'], dict(rules=rules, ruleinfo=ruleinfo, start=start, input=text, sem=semd, history=hist, lr=lr), d)
        finally:
            if cache.get('mod') is not None:
                tu.unload(cache['mod'])
    hyp_run(sh, gen.rnds(), body, n)


def replay(case):
    d, _ = check(case['rules'], case.get('ruleinfo') or {}, case['start'], case['input'], case['sem'], history=case.get('history'), lr=bool(case.get('lr')))
    return d


def shrink_candidates(case):
    rules = [(n, tup(x)) for n, x in case['rules']]
    text = case['input']
    for i in range(len(text)):
        yield dict(case, input=text[:i] + text[i + 1:])
    ri = case.get('ruleinfo') or {}
    hist = case.get('history') or []
    for i in range(len(hist)):
        yield dict(case, history=hist[:i] + hist[i + 1:])
    for n in list(ri):
        yield dict(case, ruleinfo={k: v for k, v in ri.items() if k != n})
    for r2 in shrink_rules(rules):
        if r2 and r2[0][0] == case['start']:
            names = {n for n, _ in r2}
            yield dict(case, rules=r2, ruleinfo={k: v for k, v in ri.items() if k in names})


EXCLUSIONS = {}
