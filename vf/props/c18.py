"""C18 — parallel processing yields exactly one result per payload.

The harness owns the schedule: tatsu.parproc.pmap's executor_pmap loop is driven with a deterministic
executor (a ProcessPoolExecutor subclass that starts no processes; submit() only records a Future), and the
threading.Event inside concurrent.futures.as_completed's waiter is replaced by an object whose wait() asks
the schedule which pending future(s) to complete next and completes them in the calling thread.
"""
from __future__ import annotations

import concurrent.futures
import concurrent.futures._base as cfbase
import contextlib
import threading
import time
from collections import Counter
from concurrent.futures import Future, ProcessPoolExecutor

from vf import gen
from vf.core import hyp_run

PROPERTY = 'C18'
RULE = ('lists of 0..7 payloads (objects implementing raises(); a generated subset raise exceptions that the loop is asked to capture: '
        'reraise=False and raises() empty or naming the class or a base class; the classes include user exceptions whose constructor does not take '
        '.args or that hold an unpicklable attribute - for those a result may carry a stand-in that names the class), max_workers 1..4, pickable in {identity, repr}, and schedules = '
        'sequences of (how many pending futures complete before the loop looks again: 1 or 2, which ones). Exhaustive over all schedules '
        'for n <= 4 payloads and max_workers <= 2 (depth-first enumeration with replay), Hypothesis-drawn beyond; plus a sampled tier with '
        'real process pools through the public parproc(parallel=True) with generated per-task sleeps, compared with parallel=False. Oracle '
        '(model): the multiset of (payload, outcome, type(exception), exception.args) yielded equals the one a plain loop over taskproc gives, '
        'which is what the sequential mode yields. non-trivial = >= 3 payloads, >= 1 captured exception and a completion order that is not the '
        'submission order; distinct = distinct (payload list, workers, schedule)')
ASSUMPTIONS = [
    'the owned schedule covers the logic of the submission/refill loop, not the operating system\'s process scheduling (that is only sampled)',
    'uses the private stdlib name concurrent.futures._base._create_and_install_waiters; if it is missing the check reports a harness error',
]
BUDGET_S = {'quick': 120, 'thorough': 1200}


# ------------------------------------------------------------------ payloads and work (module level: picklable)
class Pay:
    def __init__(self, ident, exc=None, allowed=(), sleep=0.0):
        self.ident = ident
        self.exc = exc            # None | name of exception class to raise
        self.allowed = allowed    # names returned by raises()
        self.sleep = sleep
        self.path = f'p{ident}'
        self.payload = ident

    def raises(self):
        return tuple(EXC[n] for n in self.allowed)

    def __repr__(self):
        return f'Pay({self.ident}, {self.exc}, {self.allowed})'


class CustomErr(Exception):
    pass


class TwoArgErr(Exception):
    """an ordinary user exception whose constructor does not take .args: pickles, but does not load back"""
    def __init__(self, ident, what):
        super().__init__(f'{what} in {ident}')
        self.ident = ident
        self.what = what


class KwErr(Exception):
    def __init__(self, message, *, code):
        super().__init__(message)
        self.code = code


class HandleErr(Exception):
    """carries something that cannot be pickled at all"""
    def __init__(self, ident):
        super().__init__(ident)
        self.handle = lambda: ident


class BadArgErr(TypeError):
    """a user exception that is a TypeError (the loop itself looks at TypeError for its path-argument compatibility retry)"""


class MixedErr(Exception):
    """one class, instances that differ: every other instance carries something that cannot be pickled (a handle, a lock, the
    generator that failed) - whether an exception can travel is a property of the instance, not of its class"""
    def __init__(self, ident):
        super().__init__(ident)
        if ident % 2:
            self.handle = lambda: ident


# exceptions that cannot travel between processes as they are: a result may carry a stand-in that names the class
NONPORTABLE = {'TwoArgErr': lambda i: TwoArgErr(i, 'oops'), 'KwErr': lambda i: KwErr(f'bad {i}', code=i), 'HandleErr': HandleErr, 'MixedErr': MixedErr}

EXC = {'MixedErr': MixedErr, 'TypeError': TypeError, 'BadArgErr': BadArgErr, 'TwoArgErr': TwoArgErr, 'KwErr': KwErr, 'HandleErr': HandleErr,
       'ValueError': ValueError, 'KeyError': KeyError, 'LookupError': LookupError, 'ZeroDivisionError': ZeroDivisionError, 'ArithmeticError': ArithmeticError,
       'Exception': Exception, 'CustomErr': CustomErr, 'OSError': OSError, 'FileNotFoundError': FileNotFoundError}
PARENTS = {'MixedErr': ['Exception'], 'TypeError': ['Exception'], 'BadArgErr': ['TypeError', 'Exception'], 'TwoArgErr': ['Exception'], 'KwErr': ['Exception'], 'HandleErr': ['Exception'], 'KeyError': ['LookupError', 'Exception'], 'ZeroDivisionError': ['ArithmeticError', 'Exception'], 'FileNotFoundError': ['OSError', 'Exception'],
           'ValueError': ['Exception'], 'CustomErr': ['Exception'], 'LookupError': ['Exception'], 'OSError': ['Exception']}


def work(p, *args, **kwargs):
    if p.sleep:
        time.sleep(p.sleep)
    if p.exc == 'KeyboardInterrupt':
        raise KeyboardInterrupt
    if p.exc in NONPORTABLE:
        raise NONPORTABLE[p.exc](p.ident)
    if p.exc:
        raise EXC[p.exc](p.ident)
    return p.ident * 10


def _vpay():
    from tatsu.parproc.payload import VisualPayload
    return VisualPayload


def _rec(n):
    return 0 if n == 0 else 1 + _rec(n - 1)


def work_legacy(path, *args, **kwargs):
    """a function written for the old interface: it takes the path of the payload (given the payload object, Path() raises TypeError and
    the loop calls it again with payload.path); the work recurses as deep as the file name says (a deeply nested input)"""
    from pathlib import Path
    name = Path(path).name          # 'd<depth>x<ident>'
    depth = int(name[1:name.index('x')])
    return _rec(depth)


def run_legacy(depths, workers, parallel):
    """VisualPayload payloads + a path-taking function + inputs that need a deep stack: one result per payload, in both modes"""
    from pathlib import Path
    from tatsu.parproc import parproc
    VP = _vpay()
    payloads = [VP(path=Path(f'd{d}x{i}'), payload=None) for i, d in enumerate(depths)]
    want = Counter((f'd{d}x{i}', d, None) for i, d in enumerate(depths))
    from vf.core import CaseTimeout, watchdog
    try:
        with watchdog(60):
            got = Counter((r.payload.path.name, r.outcome, type(r.exception).__name__ if r.exception is not None else None)
                          for r in parproc(work_legacy, payloads, parallel=parallel, max_workers=workers))
    except CaseTimeout:
        import multiprocessing
        for c in multiprocessing.active_children():
            c.kill()
        return dict(bucket='legacy:blocked', oracle='the loop yields one result per payload (none within 60 s)', depths=depths, parallel=parallel)
    except BaseException as e:  # noqa: BLE001 - RecursionError / RuntimeError escaping the loop is the failure looked for
        return dict(bucket=f'legacy:raises:{type(e).__name__}', oracle='the loop yields one result per payload (deep recursion inside a task is the task\'s business)',
                    observed=str(e)[:200], depths=depths, parallel=parallel)
    if got != want:
        return dict(bucket='legacy:multiset', oracle='exactly one result per payload carrying the function\'s outcome', yielded=sorted(got.elements(), key=repr)[:6],
                    expected=sorted(want.elements(), key=repr)[:6], depths=depths, parallel=parallel)
    return None


def key_of(r):
    e = r.exception
    if e is not None and r.payload.exc in NONPORTABLE:
        # "carrying the exception it raised": the exception itself, or a stand-in that names its class
        named = type(e).__name__ == r.payload.exc or r.payload.exc in str(e) or r.payload.exc in repr(getattr(e, 'args', ''))
        return (r.payload.ident, repr(r.outcome), 'nonportable:' + r.payload.exc if named else type(e).__name__, None)
    return (r.payload.ident, repr(r.outcome), type(e).__name__ if e is not None else None, repr(getattr(e, 'args', None)) if e is not None else None)


def model_key(p, pickable):
    """my own model of one result: the function's outcome, or the exception it raised (captured)"""
    try:
        out = work(p)
        return (p.ident, repr(pickable(out)), None, None)
    except Exception as e:
        if p.exc in NONPORTABLE:
            return (p.ident, repr(pickable(None)), 'nonportable:' + p.exc, None)
        return (p.ident, repr(pickable(None)), type(e).__name__, repr(e.args))


def make_payloads(spec):
    return [Pay(i, exc, tuple(allowed)) for i, (exc, allowed) in enumerate(spec)]


# ------------------------------------------------------------------ owned schedule
class Chooser:
    """choice(n): returns the next scheduled choice in range(n); records the branching factors (for exhaustive enumeration)"""

    def __init__(self, path):
        self.path = list(path)
        self.widths = []
        self.taken = []

    def choice(self, n):
        i = len(self.taken)
        c = self.path[i] % n if i < len(self.path) else 0
        self.widths.append(n)
        self.taken.append(c)
        return c


class SchedExecutor(ProcessPoolExecutor):
    current = None

    def __init__(self, max_workers=None, **kw):   # no processes are started
        self.max_workers_ = max_workers
        self.submitted = []
        self.order = []
        self.chooser = SchedExecutor.chooser_for_next
        SchedExecutor.current = self

    chooser_for_next = None

    def submit(self, fn, /, *args, **kwargs):
        f = Future()
        f.set_running_or_notify_cancel()
        self.submitted.append((f, fn, args, kwargs))
        return f

    def pending(self):
        return [x for x in self.submitted if not x[0].done()]

    def step(self):
        pend = self.pending()
        if not pend:
            raise RuntimeError('vf: the loop waits but no future is pending')
        # the pool runs at most max_workers tasks at once, in submission order
        window = pend[:max(1, self.max_workers_ or 1)]
        k = 1 + self.chooser.choice(2) if len(window) > 1 else 1
        for _ in range(k):
            window = [x for x in self.pending()][:max(1, self.max_workers_ or 1)]
            if not window:
                break
            f, fn, args, kwargs = window[self.chooser.choice(len(window))]
            try:
                f.set_result(fn(*args, **kwargs))
            except BaseException as e:  # what a worker process would ship back
                f.set_exception(e)
            self.order.append(args[0].payload.ident)

    def shutdown(self, wait=True, *, cancel_futures=False):
        return None

    def __enter__(self):
        return self

    def __exit__(self, *a):
        return False


class SchedEvent:
    def __init__(self):
        self.flag = False

    def set(self):
        self.flag = True

    def clear(self):
        self.flag = False

    def is_set(self):
        return self.flag

    def wait(self, timeout=None):
        if not self.flag:
            SchedExecutor.current.step()
        return True


@contextlib.contextmanager
def owned_waiters():
    orig = cfbase._create_and_install_waiters

    def patched(fs, return_when):
        w = orig(fs, return_when)
        w.event = SchedEvent()
        return w
    cfbase._create_and_install_waiters = patched
    try:
        yield
    finally:
        cfbase._create_and_install_waiters = orig


def get_executor_pmap():
    from tatsu.parproc.pmap import active_pmap
    fn = active_pmap()
    seen = set()
    stack = [fn]
    while stack:
        f = stack.pop()
        if id(f) in seen or not getattr(f, '__closure__', None):
            continue
        seen.add(id(f))
        for cell in f.__closure__:
            try:
                v = cell.cell_contents
            except ValueError:
                continue
            if callable(v) and getattr(v, '__name__', '') == 'executor_pmap':
                return v
            if callable(v):
                stack.append(v)
    raise RuntimeError('executor_pmap not found in active_pmap closure')


def run_owned(spec, workers, pickable, path):
    """returns (detail|None, info, chooser)"""
    from tatsu.parproc.task import Task, taskproc
    payloads = make_payloads(spec)
    stop = threading.Event()
    pk = repr if pickable == 'repr' else (lambda x: x)
    tasks = [Task(stop=stop, func=work, payload=p, pickable=pk, reraise=False, args=(), kwargs={}) for p in payloads]
    expected = Counter(model_key(p, pk) for p in payloads)
    chooser = Chooser(path)
    SchedExecutor.chooser_for_next = chooser
    executor_pmap = get_executor_pmap()
    info = {}
    try:
        with owned_waiters():
            got = [key_of(r) for r in executor_pmap(SchedExecutor, stop, taskproc, tasks, workers)]
    except Exception as e:
        return dict(bucket=f'owned:raises:{type(e).__name__}', oracle='the loop yields results; captured exceptions never escape', observed=str(e)[:200],
                    spec=spec, workers=workers, schedule=chooser.taken), info, chooser
    ex = SchedExecutor.current
    info['order'] = list(ex.order) if ex else []
    info['reordered'] = info['order'] != sorted(info['order'])
    gc = Counter(got)
    if gc != expected:
        missing = sorted((expected - gc).elements())
        extra = sorted((gc - expected).elements())
        return dict(bucket='owned:' + ('lost' if missing and not extra else 'duplicate' if extra and not missing else 'mismatch'),
                    oracle='exactly one result per payload, equal to the sequential multiset', missing=missing[:4], extra=extra[:4], n_expected=sum(expected.values()),
                    n_yielded=len(got), spec=spec, workers=workers, schedule=chooser.taken), info, chooser
    return None, info, chooser


def all_schedules(spec, workers, pickable, limit):
    """depth-first enumeration of every schedule; yields (detail, info, chooser)"""
    path = []
    n = 0
    while True:
        d, info, ch = run_owned(spec, workers, pickable, path)
        n += 1
        yield d, info, ch
        if n >= limit:
            return
        # next path in DFS order
        taken, widths = ch.taken, ch.widths
        i = len(taken) - 1
        while i >= 0 and taken[i] + 1 >= widths[i]:
            i -= 1
        if i < 0:
            return
        path = taken[:i] + [taken[i] + 1]


def gen_spec(rnd, n):
    spec = []
    themed = rnd.random() < 0.15     # every failing payload raises the same class, with instances that can and cannot be pickled
    for _ in range(n):
        if rnd.random() < (0.7 if themed else 0.4):
            exc = rnd.choice(['ValueError', 'KeyError', 'ZeroDivisionError', 'CustomErr', 'FileNotFoundError', 'TwoArgErr', 'KwErr', 'HandleErr', 'MixedErr', 'TypeError', 'BadArgErr'])
            if themed:
                exc = 'MixedErr'
            r = rnd.random()
            allowed = [] if r < 0.4 else [exc] if r < 0.7 else [rnd.choice(PARENTS[exc])]
            spec.append((exc, allowed))
        else:
            spec.append((None, []))
    return spec


def nontrivial(spec, info):
    return len(spec) >= 3 and any(e for e, _ in spec) and bool(info.get('reordered'))


# ------------------------------------------------------------------ sampled tier (real process pools)
def run_real(spec, workers, sleeps, pickable):
    from tatsu.parproc import parproc
    payloads = make_payloads(spec)
    for p, s in zip(payloads, sleeps):
        p.sleep = s
    pk = repr if pickable == 'repr' else None
    kw = dict(pickable=pk) if pk else {}
    from vf.core import CaseTimeout, watchdog
    try:
        with watchdog(60):
            par = [key_of(r) for r in parproc(work, payloads, parallel=True, max_workers=workers, **kw)]
            seq = [key_of(r) for r in parproc(work, make_payloads(spec), parallel=False, **kw)]
    except CaseTimeout:
        import multiprocessing
        for c in multiprocessing.active_children():
            c.kill()
        return dict(bucket='real:blocked', oracle='a captured exception never blocks the results of the others (no result within 60 s for <= 9 tiny tasks)',
                    spec=spec, workers=workers)
    except Exception as e:
        return dict(bucket=f'real:raises:{type(e).__name__}', oracle='parproc yields results; captured exceptions never escape', observed=str(e)[:200], spec=spec, workers=workers)
    pkf = repr if pickable == 'repr' else (lambda x: x)
    model = Counter(model_key(p, pkf) for p in make_payloads(spec))
    if Counter(par) != model:
        return dict(bucket='real:parallel-vs-model', oracle='parallel mode yields one result per payload: the outcome or the captured exception', parallel=sorted(par)[:8],
                    model=sorted(model.elements())[:8], spec=spec, workers=workers)
    if Counter(par) != Counter(seq) or len(par) != len(spec):
        return dict(bucket='real:multiset', oracle='parallel and sequential modes yield the same multiset, one result per payload', parallel=sorted(par)[:8], sequential=sorted(seq)[:8],
                    spec=spec, workers=workers)
    return None


def run_after_interrupt(spec, pickable, parallel=False, workers=2):
    """fault sequence: an earlier, independent run in this interpreter was interrupted (a task raised KeyboardInterrupt and the caller
    survived it); the run under test comes afterwards and must yield one result per payload like any other"""
    from tatsu.parproc import parproc
    try:
        list(parproc(work, [Pay(0), Pay(1, 'KeyboardInterrupt'), Pay(2)], parallel=False))
        interrupted = False
    except KeyboardInterrupt:
        interrupted = True
    pk = repr if pickable == 'repr' else None
    kw = dict(pickable=pk) if pk else {}
    from vf.core import CaseTimeout, watchdog
    try:
        with watchdog(30):
            got = [key_of(r) for r in parproc(work, make_payloads(spec), parallel=parallel, max_workers=workers, **kw)]
    except CaseTimeout:
        import multiprocessing
        for c in multiprocessing.active_children():
            c.kill()
        return dict(bucket='after-interrupt:blocked', oracle='a run after an interrupted earlier run yields its results (none within 30 s for <= 7 tiny tasks)', spec=spec, parallel=parallel), interrupted
    except Exception as e:
        return dict(bucket=f'after-interrupt:raises:{type(e).__name__}', oracle='a run after an interrupted earlier run yields results', observed=str(e)[:200], spec=spec), interrupted
    pkf = repr if pickable == 'repr' else (lambda x: x)
    model = Counter(model_key(p, pkf) for p in make_payloads(spec))
    if Counter(got) != model:
        return dict(bucket='after-interrupt:multiset', oracle='exactly one result per payload, carrying the outcome or the captured exception, whatever ran (and was interrupted) before',
                    yielded=sorted(got, key=repr)[:6], model=sorted(model.elements(), key=repr)[:6], spec=spec, parallel=parallel), interrupted
    return None, interrupted


def plan(tier):
    nreal = 25 if tier == 'quick' else 200
    nh = 3000 if tier == 'quick' else 40000
    return [dict(kind='exhaustive', index=i, nshards=8, tier=tier) for i in range(8)] + [dict(kind='random', n=nh) for _ in range(4)] + \
        [dict(kind='real', n=nreal) for _ in range(4)]


def run_shard(sh, kind, **kw):
    if not hasattr(cfbase, '_create_and_install_waiters'):
        raise RuntimeError('concurrent.futures._base._create_and_install_waiters is missing: the owned schedule cannot be installed')
    if kind == 'exhaustive':
        return run_exhaustive(sh, **kw)
    if kind == 'random':
        return run_random(sh, **kw)
    return run_real_shard(sh, **kw)


def run_exhaustive(sh, index, nshards, tier):
    """all payload specs over {ok, captured ValueError, captured-by-base KeyError} for n <= 4, workers <= 2: every schedule"""
    import itertools
    kinds = [(None, []), ('ValueError', []), ('KeyError', ['LookupError'])]
    k = 0
    complete = True
    maxn = 5 if tier == 'quick' else 6
    for n in range(0, maxn + 1):
        for combo in itertools.product(kinds, repeat=n):
            for workers in (1, 2):
                k += 1
                if k % nshards != index:
                    continue
                if n == maxn and k % (3 * nshards) != index:
                    continue  # a third of the largest size
                spec = [list(x) for x in combo]
                for d, info, ch in all_schedules(spec, workers, 'identity', 5000):
                    if sh.out_of_budget():
                        complete = False
                        break
                    sh.case(('owned', repr(spec), workers, tuple(ch.taken)), nontrivial(spec, info), ['owned-exhaustive', f'n:{n}', f'workers:{workers}'],
                            sample=dict(spec=spec, workers=workers, schedule=ch.taken, completion_order=info.get('order')))
                    if d is not None:
                        sh.fail(d['bucket'], dict(kind='owned', spec=spec, workers=workers, pickable='identity', path=ch.taken), d)
    sh.exhaustive[f'all schedules for payload lists of length <= {maxn - 1} over 3 payload kinds, 1-2 workers (and a third of length {maxn})'] = complete


def run_random(sh, n):
    def body(rnd):
        spec = gen_spec(rnd, rnd.randint(0, 7))
        workers = rnd.randint(1, 4)
        pickable = rnd.choice(['identity', 'identity', 'repr'])
        path = [rnd.randrange(8) for _ in range(40)]
        d, info, ch = run_owned(spec, workers, pickable, path)
        sh.case(('owned', repr(spec), workers, pickable, tuple(ch.taken)), nontrivial(spec, info), ['owned-random', f'n:{len(spec)}', f'workers:{workers}', f'pickable:{pickable}'],
                sample=dict(spec=spec, workers=workers, schedule=ch.taken, completion_order=info.get('order')))
        if d is not None:
            sh.fail(d['bucket'], dict(kind='owned', spec=spec, workers=workers, pickable=pickable, path=ch.taken), d)
        if rnd.random() < 0.05:
            d, interrupted = run_after_interrupt(spec, pickable)
            sh.case(('after-interrupt', repr(spec), pickable), interrupted and len(spec) >= 2, ['fault sequence: run after an interrupted run (sequential mode)'],
                    sample=dict(earlier_run='a task raised KeyboardInterrupt', spec=spec))
            if d is not None:
                sh.fail(d['bucket'], dict(kind='after-interrupt', spec=spec, pickable=pickable, parallel=False), d)
    hyp_run(sh, gen.rnds(), body, n)


def run_real_shard(sh, n):
    def body(rnd):
        if rnd.random() < 0.15:
            depths = [rnd.choice([0, 3, 40, 900, 1500, 3000]) for _ in range(rnd.choice([1, 2, 3, 5]))]
            parallel = rnd.random() < 0.5
            d = run_legacy(depths, rnd.randint(1, 3), parallel)
            sh.case(('legacy', repr(depths), parallel), len(depths) >= 2 and max(depths) > 1000, ['VisualPayload + path-taking function + deep recursion', 'legacy:parallel' if parallel else 'legacy:sequential'],
                    sample=dict(depths=depths, parallel=parallel))
            if d is not None:
                sh.fail(d['bucket'], dict(kind='legacy', depths=depths, parallel=parallel, spec=[], workers=2), d)
            return
        if rnd.random() < 0.15:
            spec = gen_spec(rnd, rnd.choice([2, 4, 6]))
            pickable = rnd.choice(['identity', 'repr'])
            d, interrupted = run_after_interrupt(spec, pickable, parallel=True, workers=rnd.randint(1, 3))
            sh.case(('after-interrupt-real', repr(spec), pickable), interrupted, ['fault sequence: run after an interrupted run (process pool)'], sample=dict(spec=spec))
            if d is not None:
                sh.fail(d['bucket'], dict(kind='after-interrupt', spec=spec, pickable=pickable, parallel=True), d)
            return
        spec = gen_spec(rnd, rnd.choice([0, 1, 2, 4, 6, 7, 9]))
        workers = rnd.randint(1, 3)
        sleeps = [rnd.choice([0, 0.001, 0.003, 0.005]) for _ in spec]
        pickable = rnd.choice(['identity', 'repr'])
        d = run_real(spec, workers, sleeps, pickable)
        sh.case(('real', repr(spec), workers, repr(sleeps), pickable), len(spec) >= 3 and any(e for e, _ in spec), ['real-pool', f'n:{len(spec)}', f'pickable:{pickable}'],
                sample=dict(spec=spec, workers=workers, sleeps=sleeps, pickable=pickable))
        if d is not None:
            sh.fail(d['bucket'], dict(kind='real', spec=spec, workers=workers, sleeps=sleeps, pickable=pickable), d)
    hyp_run(sh, gen.rnds(), body, n)


def replay(case):
    spec = [(e, list(a)) for e, a in case['spec']]
    if case.get('kind') == 'legacy':
        return run_legacy(case['depths'], case.get('workers', 2), bool(case.get('parallel')))
    if case.get('kind') == 'after-interrupt':
        d, _ = run_after_interrupt(spec, case.get('pickable', 'identity'), parallel=bool(case.get('parallel')))
        return d
    if case.get('kind') == 'real':
        return run_real(spec, case['workers'], case['sleeps'], case.get('pickable', 'identity'))
    d, _, _ = run_owned(spec, case['workers'], case.get('pickable', 'identity'), case.get('path', []))
    return d


def shrink_candidates(case):
    spec = case['spec']
    for i in range(len(spec)):
        c = dict(case, spec=spec[:i] + spec[i + 1:])
        if 'sleeps' in case:
            c['sleeps'] = case['sleeps'][:i] + case['sleeps'][i + 1:]
        yield c
    for i, (e, a) in enumerate(spec):
        if e:
            yield dict(case, spec=spec[:i] + [(None, [])] + spec[i + 1:])
    if case.get('path'):
        yield dict(case, path=case['path'][:-1])
        yield dict(case, path=[0] * len(case['path']))


EXCLUSIONS = {}
