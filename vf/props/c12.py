"""C12 — source positions and parse information are exact.

(a) cursor.lineinfo/lineat/poscol against my own line splitter, exhaustively over
    short strings and with Hypothesis on longer texts, for TextLines and Buffer.
(b) parseinfo on dict ASTs / nodes against RefPEG's trace of rule invocations
    (implemented in vf.parseinfo_check, added to the plan when available).
"""
from __future__ import annotations

import itertools

from hypothesis import strategies as st

from vf.core import hyp_run

PROPERTY = 'C12'
RULE = ('(a) every string over {a, space, LF, CR} up to length 6 (quick) / 9 (thorough), every offset 0..len, TextLines and Buffer, '
        'plus Hypothesis texts up to 200 chars over letters, spaces, LF, CR, CRLF, tabs and non-BMP characters; '
        'oracle = independent splitter (LF, CR, CRLF end a line). non-trivial = text has a line break and the offset is adjacent '
        'to one or is the last character. (b) generated grammars with named rules x derived sentences laid out with random whitespace '
        'and line breaks, parseinfo=True; oracle = RefPEG trace of (rule, start-after-whitespace, end); non-trivial = rule entered '
        'after skipped whitespace or on a line > 0. distinct = distinct (class, text, offset) / (grammar, input)')
ASSUMPTIONS = [
    'line breaks are LF, CR and CRLF as the statement says; other unicode line separators that str.splitlines honours are not generated',
    'for offset == len(text) (and the empty text) only "returns without raising and line <= number of lines" is required: the statement speaks of offsets in the text',
    'endline is not asserted (the statement speaks of the start line)',
]
BUDGET_S = {'quick': 90, 'thorough': 900}
ALPHA = 'a \n\r'


def split(text):
    """independent splitter: list of (start, line_with_terminator)"""
    out = []
    i = 0
    n = len(text)
    start = 0
    while i < n:
        c = text[i]
        if c == '\r' and i + 1 < n and text[i + 1] == '\n':
            i += 2
            out.append((start, text[start:i]))
            start = i
        elif c == '\r' or c == '\n':
            i += 1
            out.append((start, text[start:i]))
            start = i
        else:
            i += 1
    if start < n:
        out.append((start, text[start:]))
    return out


def expect(lines, p):
    for ln, (s, l) in enumerate(lines):
        if s <= p < s + len(l):
            return ln, p - s, s, l
    return None


def _cls(name):
    if name == 'TextLines':
        from tatsu.input.textlines import TextLines
        return TextLines
    from tatsu.input.buffer import Buffer
    return Buffer


def check_text(clsname, text, offsets=None, source=None, prev=None):
    """returns list of (offset, detail) failures.  source: the text is given a source name (a file that is read again after an edit);
    prev: a text built under the same source name just before (what the answer for `text` must not depend on)"""
    cls = _cls(clsname)
    fails = []
    try:
        if source is not None:
            if prev is not None:
                pc_ = cls(prev, source=source).newcursor()
                if prev:
                    pc_.lineinfo(0)
            c = cls(text, source=source).newcursor()
        else:
            c = cls(text).newcursor()
    except Exception as e:
        return [(-1, dict(bucket=f'{clsname}:ctor:{type(e).__name__}', oracle='constructing the input raised', observed=repr(e)))]
    lines = split(text)
    rng = range(len(text) + 1) if offsets is None else offsets
    for p in rng:
        try:
            li = c.lineinfo(p)
            la = c.lineat(p)
            pc = c.poscol(p)
        except Exception as e:
            fails.append((p, dict(bucket=f'{clsname}:exception:{type(e).__name__}:{"p==len" if p == len(text) else "p<len"}',
                                  oracle='lineinfo/lineat/poscol raised', observed=repr(e))))
            continue
        if p <= len(text):
            # the same question asked of a cursor that stands at p, without an explicit offset (how a failure is reported): a clone
            # moved there; the first cursor stays where it was
            try:
                c2 = c.clone()
                c2.goto(p)
                li0, la0, pc0 = c2.lineinfo(), c2.lineat(), c2.poscol()
            except Exception as e:
                fails.append((p, dict(bucket=f'{clsname}:exception-at-cursor:{type(e).__name__}', oracle='lineinfo()/lineat()/poscol() of a cursor at p raised', observed=repr(e))))
                continue
            if (tuple(li0), la0, pc0) != (tuple(li), la, pc):
                fails.append((p, dict(bucket=f'{clsname}:at-cursor', oracle='a cursor moved to p answers lineinfo()/lineat()/poscol() as lineinfo(p)/lineat(p)/poscol(p)',
                                      expected=repr((tuple(li), la, pc)), observed=repr((tuple(li0), la0, pc0)))))
                continue
        if p < len(text):
            ln, col, s, l = expect(lines, p)
            got = (li.line, li.col, li.start, li.text.rstrip('\r\n'))
            want = (ln, col, s, l.rstrip('\r\n'))
            if got != want:
                fails.append((p, dict(bucket=f'{clsname}:lineinfo', oracle='lineinfo(p) == (line, col, start, line text) of my splitter',
                                      expected=want, observed=got)))
            elif li.end != s + len(l) and li.end != s + len(l.rstrip('\r\n')):
                fails.append((p, dict(bucket=f'{clsname}:lineinfo-end', oracle='lineinfo(p).end is the end of the line (with or without terminator)',
                                      expected=s + len(l), observed=li.end)))
            elif la != ln:
                fails.append((p, dict(bucket=f'{clsname}:lineat', oracle='lineat(p) == my line number', expected=ln, observed=la)))
            elif pc != col:
                fails.append((p, dict(bucket=f'{clsname}:poscol', oracle='poscol(p) == my column', expected=col, observed=pc)))
        else:
            if li.line > len(lines) or la > len(lines) + 1 or li.line < 0:
                fails.append((p, dict(bucket=f'{clsname}:eof-line', oracle='at p == len: line <= number of lines',
                                      expected=f'<= {len(lines)}', observed=(li.line, la))))
            elif text and text[-1] not in '\r\n':
                # the end of a text whose last line has no terminator is unambiguous: it is on that last line, one column past its last
                # character (after a terminator it could be read as the end of that line or as an empty line after it: not judged)
                ln, s, l = len(lines) - 1, len(text) - len(lines[-1]), lines[-1]
                want = (ln, len(l), ln, len(l))
                got = (li.line, li.col, la, pc)
                if got != want:
                    fails.append((p, dict(bucket=f'{clsname}:end-of-text', oracle='at p == len of a text without a final terminator: (lineinfo.line, lineinfo.col, lineat, poscol) == (last line, its length, last line, its length)',
                                          expected=want, observed=got)))
    return fails


def nontrivial_offset(text, p):
    if p >= len(text):
        return False
    if '\n' not in text and '\r' not in text:
        return False
    near = text[max(0, p - 1):p + 2]
    return '\n' in near or '\r' in near or p == len(text) - 1


def plan(tier):
    nsh = 16
    maxlen = 6 if tier == 'quick' else 9
    nhyp = 400 if tier == 'quick' else 6000
    shards = [dict(kind='lines', index=i, nshards=nsh, maxlen=maxlen, nhyp=nhyp) for i in range(nsh)]
    try:
        from vf import parseinfo_check  # noqa: F401
        npi = 250 if tier == 'quick' else 4000
        shards += [dict(kind='parseinfo', n=npi) for _ in range(16)]
    except ImportError:
        pass
    return shards


def run_shard(sh, kind, **kw):
    if kind == 'lines':
        return run_lines(sh, **kw)
    from vf import parseinfo_check
    return parseinfo_check.run_shard(sh, **kw)


def split_count(text):
    return len(split(text))


def run_lines(sh, index, nshards, maxlen, nhyp):
    k = 0
    complete = True
    prevs = {}
    for L in range(0, maxlen + 1):
        for t in itertools.product(ALPHA, repeat=L):
            k += 1
            if k % nshards != index:
                continue
            if k % 512 == index and sh.out_of_budget():
                complete = False
                break
            text = ''.join(t)
            for clsname in ('TextLines', 'Buffer'):
                fails = check_text(clsname, text)
                bad = {p for p, _ in fails}
                for p in range(len(text) + 1):
                    sh.case((clsname, text, p), nontrivial_offset(text, p),
                            [f'class:{clsname}', 'offset:eof' if p == len(text) else 'offset:in'],
                            sample=dict(cls=clsname, text=text, offset=p))
                for p, d in fails:
                    sh.fail(d['bucket'], dict(kind='lines', cls=clsname, text=text, offset=p), d)
                # the same text under a source name that the previous text of this enumeration (same length, mostly the same number of
                # lines, other break positions) was given too: a file that is edited and read again
                prev = prevs.get(clsname)
                if prev is not None and len(prev) == len(text):
                    for p, d in check_text(clsname, text, source='edited.txt', prev=prev):
                        sh.fail('named-source:' + d['bucket'], dict(kind='lines', cls=clsname, text=text, offset=p, source='edited.txt', prev=prev), d)
                    sh.case((clsname, text, 'named', prev), split_count(prev) == split_count(text) and prev != text, [f'class:{clsname}', 'named source read again after an edit'])
                prevs[clsname] = text
        if not complete:
            break
    sh.exhaustive[f'strings over {{a,space,LF,CR}} up to length {maxlen}, all offsets, both classes'] = complete

    alpha = st.sampled_from(['a', 'b', ' ', '\t', '\n', '\r', '\r\n', 'é', '漢', '🙂', 'x', '\n\n', '\r\r', '\n\r'])
    longtexts = st.lists(alpha, min_size=0, max_size=120).map(''.join)

    def body(text):
        for clsname in ('TextLines', 'Buffer'):
            fails = check_text(clsname, text)
            nt = sum(1 for p in range(len(text)) if nontrivial_offset(text, p))
            sh.case((clsname, text), nt > 0, [f'class:{clsname}', 'hypothesis-long'])
            sh.evaluations += len(text)
            for p, d in fails:
                sh.fail(d['bucket'], dict(kind='lines', cls=clsname, text=text, offset=p), d)
    hyp_run(sh, longtexts, body, nhyp, label='long')


def _f_c12_b(case, detail):
    """only the position one past the last character of a text without a final terminator"""
    return case.get('kind') == 'lines' and detail.get('bucket', '').endswith(':end-of-text') and case.get('offset') == len(case.get('text', ''))


EXCLUSIONS = {'F-C12-b': _f_c12_b}


def replay(case):
    if case.get('kind') == 'lines':
        fails = check_text(case['cls'], case['text'], [case['offset']] if case['offset'] >= 0 else None, source=case.get('source'), prev=case.get('prev'))
        return fails[0][1] if fails else None
    from vf import parseinfo_check
    return parseinfo_check.replay(case)


def shrink_candidates(case):
    if case.get('kind') != 'lines':
        from vf import parseinfo_check
        yield from parseinfo_check.shrink_candidates(case)
        return
    text, p = case['text'], case['offset']
    for i in range(len(text)):
        t = text[:i] + text[i + 1:]
        for q in {p, p - 1}:
            if 0 <= q <= len(t):
                yield dict(case, text=t, offset=q)
