"""C17 — constant expressions in grammars are evaluated in a sandbox.

Monitor oracle: a sys.addaudithook active while an evaluation window is open; an event is attributed to the
expression iff the Python frame that triggered it runs code compiled from the expression (co_filename ==
'<string>'); the sandbox's own ast.parse / literal_eval / eval are raised from tatsu or ast frames.
exit/quit raise no audit event: they are replaced by same-named recorders before TatSu builds its builtin table.
"""
from __future__ import annotations

import builtins
import sys

from vf import gen
from vf.core import hyp_run, reset_tatsu_state, watchdog, CaseTimeout

PROPERTY = 'C17'
HISTORY_CONFIRM = True   # what an expression can see must not depend on earlier evaluations: such failures are confirmed by re-running the shard
RULE = ('expression strings from a small grammar of Python expressions: every name in vars(builtins) called with plausible arguments (none, an '
        'AST value, a path-like string, a code-like string), attribute chains with and without dunders, subscripts, comprehensions, lambdas, '
        'conditional expressions, walrus, string concatenations that spell dunder names, nested f-string fields including nested format specs, '
        'names shadowed by AST keys (a rule that binds open / len / n), and a safe sub-grammar (arithmetic, comparisons, pure builtins and str '
        'methods over AST values). Each is evaluated through tatsu.util.safeeval.is_eval_safe/safe_eval with the context the engine builds, and '
        'through real parses of start: n=\'abc\' k=`3` c=`EXPR` and ^`EXPR` alerts; plus two-step histories (a name bound by an earlier parse '
        'must not be readable by a later one). Oracle: no audit event in {open, import, exec, compile, input, breakpoint, os.*, subprocess.*, '
        'socket.*, ctypes.*, sys.*} is attributed to the expression, exit/quit are never called, SystemExit never escapes; an expression with '
        'a dunder attribute or a call to a name that is neither an AST key nor a pure builtin is not eval-safe; safe expressions evaluate to '
        'what plain eval gives; through the parser a rejected expression yields its text or a TatSu exception. non-trivial = parses as Python '
        'and contains a call or attribute access; distinct = distinct (expression, route)')
ASSUMPTIONS = [
    'pure builtins = my explicit list PURE below (functions without side effects on the process or the file system)',
    'attribution is by the frame that triggers the audit event; C-level escapes that raise no audit event (none known for the generated shapes) would be missed',
]
BUDGET_S = {'quick': 120, 'thorough': 1200}

PURE = {'abs', 'all', 'any', 'ascii', 'bin', 'callable', 'chr', 'divmod', 'format', 'hash', 'hex', 'iter', 'len', 'max', 'min', 'next', 'oct',
        'ord', 'pow', 'repr', 'round', 'sorted', 'sum'}
FORBIDDEN_EVENTS = ('open', 'import', 'exec', 'compile', 'builtins.input', 'builtins.breakpoint', 'os.', 'subprocess.', 'socket.', 'ctypes.', 'sys.',
                    'shutil.', 'tempfile.', 'glob.', 'pty.', 'fcntl.', 'marshal.', 'pickle.', 'code.', 'cpython.', 'mmap.', 'webbrowser.', 'urllib.', 'http.')


class Blocked(BaseException):
    pass


class Monitor:
    def __init__(self):
        self.window = False
        self.events = []
        self.exit_calls = []
        self.dunder = []
        self.installed = False

    def install(self):
        if self.installed:
            return
        self.installed = True
        mon = self

        busy = [False]

        def hook(ev, args):
            if busy[0] or not mon.window or not ev.startswith(FORBIDDEN_EVENTS):
                return
            busy[0] = True   # sys._getframe raises an audit event itself
            try:
                f = sys._getframe(1)
            except ValueError:
                return
            finally:
                busy[0] = False
            # nearest frame that is not the hook: the code that triggered the event
            if f.f_code.co_filename != '<string>':
                return
            mon.events.append(ev)
            raise Blocked(ev)
        sys.addaudithook(hook)

        def make(name):
            def recorder(*a, **k):
                if mon.window:
                    mon.exit_calls.append(name)
                    raise Blocked(name)
                raise SystemExit(*a)
            recorder.__name__ = name
            recorder.__qualname__ = name
            return recorder
        builtins.exit = make('exit')
        builtins.quit = make('quit')
        try:
            from tatsu.util import safeeval
            safeeval.safe_builtins.cache_clear()
        except Exception:
            pass

    def run(self, fn):
        """returns (result|None, exception|None, attributed events, exit calls)"""
        self.events = []
        self.exit_calls = []
        self.dunder = []
        self.window = True
        try:
            try:
                return fn(), None, list(self.events), list(self.exit_calls)
            except BaseException as e:  # noqa: BLE001 - the monitor reports everything
                return None, e, list(self.events), list(self.exit_calls)
        finally:
            self.window = False


MON = Monitor()


def _probe_getattribute(base):
    def __getattribute__(self, name):
        # an explicit attribute lookup (LOAD_ATTR, getattr, the field names of str.format) goes through here; the interpreter's implicit
        # special-method lookups go through the type's slots and do not.  Attributed like audit events: by the frame that asked.
        if name.startswith('__') and MON.window:
            try:
                f = sys._getframe(1)
            except ValueError:
                f = None
            if f is not None and f.f_code.co_filename == '<string>':
                MON.dunder.append(name)
        return base.__getattribute__(self, name)
    return __getattribute__


class PStr(str):
    """an AST value that reports dunder attribute lookups made on it by expression code"""
    __slots__ = ()
    __getattribute__ = _probe_getattribute(str)


class PInt(int):
    __slots__ = ()
    __getattribute__ = _probe_getattribute(int)


def probes():
    return {'n': PStr('abc'), 'k': PInt(3)}


# ------------------------------------------------------------------ expression generation
ARGS = ['', 'n', "'/etc/hostname'", "'1+1'", 'n, 0', "'os'", 'k', "n, 'x'", '[n]', '(1, 2)']
SAFE_ATOMS = ['n', 'k', '1', '2', "'x'", 'len(n)', 'n.upper()', 'k + 1', 'max(k, 2)', 'min(1, k)', 'sorted(n)', 'sum([k, 1])', 'abs(-k)', 'round(k / 2)',
              'repr(n)', "n.replace('a', 'b')", 'n[0]', 'n[1:]', 'n * 2', "n + 'z'", 'k > 2', 'n == n', "'-'.join([n, n])", 'divmod(k, 2)', 'pow(k, 2)', 'ord(n[0])',
              'chr(97)', 'hex(k)', 'any([k])', 'all([k, 0])', 'n.count("a")', 'n.strip()', 'n.title()', 'n.find("b")']
ATTRS = ['upper', 'format', '__class__', '__len__', '__init__', '__mro__', '__subclasses__', '__globals__', '__dict__', 'real', 'count', '__doc__',
         '__reduce__', '__getattribute__', '_x', '__', 'imag', 'mro', '__builtins__', '__self__', '__func__', '__code__', '__module__']


SHADOW_NAMES = ['open', 'len', 'print', 'exec', 'input', 'eval', 'compile', '__import__', 'breakpoint']
NESTED = ["any(S(A) for _ in 'a')", "[S(A) for _ in 'a']", "(lambda: S(A))()", "max([0], key=lambda _: S(A))", "list(map(lambda _: S(A), 'a'))",
          "{_: S(A) for _ in 'a'}", "sorted('ab', key=lambda _: S(A))", "[0 for _ in 'a' if S(A)]", "(lambda f=S: f(A))()", "next(S(A) for _ in 'a')"]


def confuse(rnd, name):
    """the same identifier spelled with compatibility characters: Python normalises identifiers (NFKC) when it compiles, so
    `_\uff3fself_\uff3f` IS `__self__` and a full-width `ｏpen` IS `open`"""
    i = rnd.randrange(len(name))
    c = name[i]
    if c == '_':
        alt = '\uff3f'
    elif c.isascii() and c.isalpha():
        alt = chr(ord(c) + 0xFEE0)
    else:
        return name
    if i == 0 and c == '_':
        i = name.rfind('_')     # an identifier cannot START with U+FF3F? (it can: it is XID_Start after NFKC) - keep a plain start anyway
        if i <= 0:
            return name
    return name[:i] + alt + name[i + 1:]


def gen_expr(rnd, names):
    r = rnd.random()
    if r < 0.30:
        name = rnd.choice(names)
        shown = confuse(rnd, name) if rnd.random() < 0.12 else name
        return f'{shown}({rnd.choice(ARGS)})', ('call', name) + (('confusable-spelling',) if shown != name else ())
    if r < 0.45:
        base = rnd.choice(['n', 'k', '()', "''", '[]', 'n.upper', 'len', '(1).real', 'n.format', 'abs', 'len'])
        attrs = [rnd.choice(ATTRS) for _ in range(rnd.randint(1, 3))]
        tail = rnd.choice(['', '()', '()', '[0]', ".open('/etc/hostname').read()"])
        chain = '.'.join(attrs)
        if rnd.random() < 0.2:
            chain = '.'.join(confuse(rnd, a) for a in attrs)
        return f'{base}.{chain}{tail}', ('attr', '.'.join(attrs)) + (('confusable-spelling',) if chain != '.'.join(attrs) else ())
    if r < 0.55:
        inner, tag = gen_expr(rnd, names)
        wrap = rnd.choice(['(lambda: {})()', '[{} for _ in [0]][0]', '({} if k else 0)', '(x := {})', '[{}][0]', '{{"a": {}}}["a"]', '({},)[0]',
                           '(lambda f: f())(lambda: {})', 'next(iter([{}]))', 'max([{}], key=lambda v: 0)'])
        return wrap.replace('{}', inner), ('wrapped',) + tag
    if r < 0.62 and rnd.random() < 0.25:
        # frame walking: no dunder, no forbidden name - a running generator's frame leads back to the evaluator's own globals.
        # `c` is a list-valued AST key (the carrier); variants differ in the chain, the way builtins are reached and what is done with them
        back = '.f_back' * rnd.randint(1, 4)
        via = rnd.choice([".f_globals.get('builtins')", ".f_builtins.get('open') and c[0].gi_frame.f_back.f_back.f_globals.get('builtins')",
                          ".f_globals.get('ast')", ".f_globals.get('builtins')", ".f_globals.get('builtins')"])
        act = rnd.choice([".open('/etc/hostname').read()", ".open('/etc/hostname')", ".__import__('os')" if False else ".eval('1+1')", ".compile('1', 's', 'eval')",
                          ".exec('x=1')", ".input()", ".exit()", ".open('/etc/hostname').read()"])
        if 'ast' in via:
            act = rnd.choice([".parse('1')", ".sys.modules.get('os').getcwd()", ".sys.exit()"])
        e = ("[c.clear(), c.append((1 for q in iter(lambda c=c: c.append(c[0].gi_frame" + back + via + "), 0))), next(c[0]), c[1]" + act + ", c.clear()][3]")
        if rnd.random() < 0.4:
            # the same walk taken one hop at a time, each hop from a name that is an AST key and is rebound by a comprehension: the running
            # generator sits in the list it iterates over
            inner = 'k' + via.replace('c[0].gi_frame.f_back.f_back', 'k') + act
            for _ in range(back.count('f_back')):
                inner = '[%s for k in [k.f_back]][0]' % inner
            inner = '[%s for k in [k.gi_frame]][0]' % inner
            e = '[(c.append((%s for k in c)), next(c[0]))[1] for c in [[]]][0]' % inner
        return e, ('frame-trick', back.count('f_back'))
    if r < 0.62:
        if rnd.random() < 0.4:
            # attribute navigation written in a *format string*: no Attribute node for the safety walk to see
            fld = rnd.choice(['0.__class__', '0.__class__.__mro__', '0.__init__.__globals__', '0.__doc__', '0.__class__.__base__.__subclasses__', '0[0].__class__',
                              '0.real.__class__', '0.__dir__', '0.__reduce__', 'x.__class__', '0.__len__', '0.__eq__'])
            fmt = rnd.choice(['{%s}', 'a{%s}b', '{%s!r}', '{%s:>9}', '{0:{%s}}', '{0}{%s}'])  % fld
            arg = rnd.choice(['n', 'k', '[n]', 'n, k', 'k, n'])
            d = rnd.choice(['%r.format(%s)' % (fmt, arg), '%r.format_map({"x": %s, "0": %s})' % (fmt.replace('0', 'x'), arg.split(',')[0], arg.split(',')[0]),
                            '(%r).format(*[%s])' % (fmt, arg), 'list(map(%r.format, [%s]))' % (fmt, arg), '(lambda f: f(%s))(%r.format)' % (arg, fmt),
                            '(%r + "").format(%s)' % (fmt, arg), '%r.strip().format(%s)' % (fmt, arg), '"{0}".format(%s)' % arg,
                            # the bound method taken from the literal and called somewhere else: through a comprehension variable that
                            # shadows an AST key, or handed to a pure builtin as key=
                            '[k(n) for k in [%r.format]]' % fmt, '[n(k) for n in [%r.format]][0]' % fmt, '[k(n) for k in [%r.format_map]]' % fmt.replace('0', 'x'),
                            'max([k, n], key=%r.format)' % fmt, 'sorted([n, k], key=%r.format)' % fmt, 'min([n], key=%r.format)' % fmt,
                            'list(map(%r.format, [n]))' % fmt, 'next(iter([%r.format]))(n)' % fmt, '[*map(%r.format, [n, k])]' % fmt])
            if rnd.random() < 0.25:
                # the format string is an AST *value* (text taken from the input); the grammar's expression looks innocent
                return rnd.choice(['n.format(k)', 'n.format(n, k)', 'n.format_map({"x": k})', '(n + "").format(k)', 'n.strip().format(k, n)']), ('format-trick', fld, fmt)
            return d, ('format-trick', fld)
        d = rnd.choice(["''.join(['__cl', 'ass__'])", "'__' + 'import' + '__'", "'{0.__class__}'.format(n)", "'%s' % n.__class__", 'n.format.__self__',
                        "n.__class__.__base__.__subclasses__()", "(1).__class__.__mro__[-1]", "[].__class__.__base__", "print.__self__",
                        "len.__self__.open('/etc/hostname')", "len.__self__.__import__('os')", "sorted.__self__.eval('1')"])
        return d, ('dunder-trick', d)
    if r < 0.80:
        # f-string forms (the engine evaluates the text as an f-string body)
        inner, tag = gen_expr(rnd, names)
        if any(c in inner for c in '{}\'"\\'):
            inner, tag = rnd.choice(SAFE_ATOMS[:12]), ('safe',)
        form = rnd.choice(['{%s}', 'x{%s}y', '{%s!r}', '{%s:>5}', '{n:>{%s}}', '{n!r:{%s}}', '{k:{k}.{%s}}', '{n}{%s}', '{{{%s}}}'])
        return form % inner, ('fstring',) + tag
    a, b = rnd.choice(SAFE_ATOMS), rnd.choice(SAFE_ATOMS)
    op = rnd.choice([' + ', ' , ', ' == ', ' if k else ', ' and ', ' or '])
    e = f'{a}{op}{b}' if op != ' if k else ' else f'({a} if k else {b})'
    if op == ' , ':
        e = f'({a}, {b})'
    return e, ('safe',)


def has_dunder_attr(expr):
    import ast
    try:
        tree = ast.parse(expr, mode='eval')
    except (SyntaxError, ValueError):
        return None
    for node in ast.walk(tree):
        if isinstance(node, ast.Attribute) and node.attr.startswith('__'):
            return True
    return False


def impure_calls(expr, astkeys):
    import ast
    try:
        tree = ast.parse(expr, mode='eval')
    except (SyntaxError, ValueError):
        return None
    out = []
    for node in ast.walk(tree):
        if isinstance(node, ast.Call) and isinstance(node.func, ast.Name):
            if node.func.id not in astkeys and node.func.id not in PURE and callable(getattr(builtins, node.func.id, len)):
                out.append(node.func.id)   # (calling a constant such as Ellipsis just raises TypeError: harmless)
    return out


def check_direct(expr, ctxvals):
    """through tatsu.util.safeeval with the context the engine would build"""
    from tatsu.util import safeeval
    MON.install()
    ctx = dict(safeeval.safe_builtins())
    ctx.update({k: (PStr(v) if type(v) is str else PInt(v) if type(v) is int else v) for k, v in ctxvals.items()})
    info = {}

    def run():
        safe = safeeval.is_eval_safe(expr, ctx)
        val = None
        if safe:
            try:
                val = ('val', safeeval.safe_eval(expr, ctx))
            except safeeval.SecurityError as e:
                val = ('security', str(e)[:80])
            except (ValueError, SyntaxError, TypeError, AttributeError, ZeroDivisionError, IndexError, KeyError) as e:
                val = ('exc', type(e).__name__)
        return safe, val
    res, exc, events, exits = MON.run(run)
    if events:
        return dict(bucket=f'direct:event:{events[0]}', oracle='evaluation never opens files, imports, runs or compiles code, reads input (audit events attributed to the expression)',
                    expression=expr, events=events), info
    if exits:
        return dict(bucket=f'direct:{exits[0]}-called', oracle='evaluation never exits the process', expression=expr), info
    if isinstance(exc, SystemExit):
        return dict(bucket='direct:SystemExit', oracle='evaluation never exits the process', expression=expr), info
    if MON.dunder:
        return dict(bucket='direct:dunder-reached', oracle='evaluation never reaches dunder attributes (attribute lookups on the AST values, observed at run time)',
                    expression=expr, attributes=sorted(set(MON.dunder))), info
    if exc is not None and not isinstance(exc, Blocked):
        info['exc'] = type(exc).__name__
        return None, info
    if res is None:
        return None, info
    safe, val = res
    info['safe'] = safe
    dunder = has_dunder_attr(expr)
    if dunder and safe:
        return dict(bucket='direct:dunder-accepted', oracle='an expression with a dunder attribute is not eval-safe', expression=expr), info
    imp = impure_calls(expr, set(ctxvals))
    if imp and safe:
        return dict(bucket=f'direct:impure-call-accepted:{imp[0]}', oracle='a call to a name that is neither an AST key nor a pure builtin is not eval-safe',
                    expression=expr, names=imp), info
    return None, info


def check_positive(expr, ctxvals, preprobe=False):
    """safe sub-grammar: the sandbox's value equals plain eval with the same names.  preprobe: the same text is first checked where its
    names are not bound (another rule, an earlier grammar): what it is judged to be there must not stick"""
    from tatsu.util import safeeval
    MON.install()
    if preprobe:
        safeeval.is_eval_safe(expr, dict(safeeval.safe_builtins()))
    ctx = dict(safeeval.safe_builtins())
    ctx.update(ctxvals)
    try:
        want = ('val', eval(expr, {'__builtins__': {k: getattr(builtins, k) for k in PURE | {'bool'}}}, dict(ctxvals)))  # noqa: S307 - generated safe expression
    except Exception as e:
        want = ('exc', type(e).__name__)
    try:
        if not safeeval.is_eval_safe(expr, ctx):
            return dict(bucket='positive:rejected', oracle='safe expressions are accepted', expression=expr)
        got = ('val', safeeval.safe_eval(expr, ctx))
    except Exception as e:
        got = ('exc', type(e).__name__)
    if want[0] == 'val' and got != want:
        return dict(bucket='positive:value', oracle='the value of a safe expression equals plain eval with the same names', expression=expr,
                    expected=repr(want), observed=repr(got))
    return None


_models = {}


def parser_model(kind, shadow):
    import tatsu
    key = (kind, shadow)
    return key, _models


class ProbeSemantics:
    """hands the engine AST values that report dunder lookups (an action's result is the rule's value)"""
    def nn(self, ast):
        return PStr(ast)

    def kk(self, ast):
        return PInt(ast)


def check_parser(expr, kind, shadow, probe=False):
    """through a real parse: constant or alert"""
    import tatsu
    from tatsu.exceptions import TatSuException
    MON.install()
    first = f"{shadow}='abc'" if shadow else "n='abc'"
    if probe and not shadow:
        return check_parser_probe(expr, kind)
    body = '`' + expr + '`'
    if '`' in expr or '\n' in expr:
        return None, {'skip': 'backtick'}
    if kind == 'alert':
        g = f"start: {first} k=`3` ^{body} $ ;\n"
    else:
        g = f"start: {first} k=`3` c={body} $ ;\n"
    info = {}
    try:
        m = tatsu.compile(g, name='S17')
    except Exception as e:
        info['skip'] = f'compile: {type(e).__name__}'
        return None, info

    def run():
        with watchdog(10):
            return m.parse('abc', parseinfo=True)
    res, exc, events, exits = MON.run(run)
    if events:
        return dict(bucket=f'parser:{kind}:event:{events[0]}', oracle='no file/import/exec/compile/input/os event is attributed to a grammar constant',
                    expression=expr, grammar=g, events=events), info
    if exits:
        return dict(bucket=f'parser:{kind}:{exits[0]}-called', oracle='a grammar constant never exits the process', expression=expr, grammar=g), info
    if isinstance(exc, SystemExit):
        return dict(bucket=f'parser:{kind}:SystemExit', oracle='a grammar constant never exits the process', expression=expr, grammar=g), info
    if exc is not None and not isinstance(exc, (TatSuException, Blocked, CaseTimeout)):
        return dict(bucket=f'parser:{kind}:raises:{type(exc).__name__}', oracle='a rejected expression is left as text or reported as a semantic failure',
                    expression=expr, grammar=g, observed=f'{type(exc).__name__}: {str(exc)[:150]}'), info
    info['outcome'] = 'ok' if exc is None else type(exc).__name__
    if exc is None and kind == 'const' and isinstance(res, dict):
        info['value'] = repr(res.get('c'))[:60]
        # a text that reaches dunder attributes (as an expression or as an f-string body) must be left uninterpreted
        dunder = has_dunder_attr(expr) or has_dunder_attr('f' + repr(expr))
        if dunder and res.get('c') != expr and not shadow:
            return dict(bucket='parser:const:dunder-evaluated', oracle='an expression that reaches dunder attributes is left as uninterpreted text',
                        expression=expr, grammar=g, observed=repr(res.get('c'))[:200]), info
    return None, info


def check_parser_probe(expr, kind):
    """the same parse with AST values that are probes: n and k are the values of rules whose actions return PStr / PInt"""
    import tatsu
    from tatsu.exceptions import TatSuException
    body = '`' + expr + '`'
    if '`' in expr or '\n' in expr:
        return None, {'skip': 'backtick'}
    tail = f"^{body}" if kind == 'alert' else f"c={body}"
    g = f"start: n=nn k=kk {tail} $ ;\nnn: 'abc' ;\nkk: `3` ;\n"
    info = {}
    try:
        m = tatsu.compile(g, name='P17')
    except Exception as e:
        info['skip'] = f'compile: {type(e).__name__}'
        return None, info

    def run():
        with watchdog(10):
            return m.parse('abc', semantics=ProbeSemantics())
    res, exc, events, exits = MON.run(run)
    dunder = sorted(set(MON.dunder))
    if events:
        return dict(bucket=f'parser:{kind}:event:{events[0]}', oracle='no file/import/exec/compile/input/os event is attributed to a grammar constant',
                    expression=expr, grammar=g, events=events), info
    if exits or isinstance(exc, SystemExit):
        return dict(bucket=f'parser:{kind}:exit', oracle='a grammar constant never exits the process', expression=expr, grammar=g), info
    if dunder:
        return dict(bucket=f'parser:{kind}:dunder-reached', oracle='a grammar constant never reaches dunder attributes (lookups on the AST values, observed at run time)',
                    expression=expr, grammar=g, attributes=dunder), info
    if exc is not None and not isinstance(exc, (TatSuException, Blocked, CaseTimeout)):
        return dict(bucket=f'parser:{kind}:raises:{type(exc).__name__}', oracle='a rejected expression is left as text or reported as a semantic failure',
                    expression=expr, grammar=g, observed=f'{type(exc).__name__}: {str(exc)[:150]}'), info
    info['outcome'] = 'ok' if exc is None else type(exc).__name__
    return None, info


NVALS = ['abc', 'abc', 'abc', 'h\xe9llo', '\u03bbb', '\u65e5\u672c', 'a\U0001f600']


def check_parser_positive(expr, nval):
    """a safe expression through a real parse: it must evaluate (the parse succeeds) and, where the value is not a string (strings are
    evaluated again until they stop changing), equal plain eval with the same names"""
    import tatsu
    if '`' in expr or '\n' in expr:
        return None, {'skip': 'backtick'}
    g = "start: n=/\\S+/ k=`3` c=`" + expr + "` $ ;\n"
    info = {}
    try:
        want = ('val', eval(expr, {'__builtins__': {k: getattr(builtins, k) for k in PURE | {'bool'}}}, {'n': nval, 'k': 3}))  # noqa: S307 - generated safe expression
    except Exception:
        return None, info
    try:
        m = tatsu.compile(g, name='C17p')
    except Exception as e:
        info['skip'] = f'compile: {type(e).__name__}'
        return None, info
    try:
        with watchdog(10):
            res = m.parse(nval)
    except CaseTimeout:
        return None, info
    except Exception as e:
        return dict(bucket=f'parser:positive:raises:{type(e).__name__}', oracle='the values that safe expressions produce are unaffected (the parse evaluates the constant)',
                    expression=expr, grammar=g, input=nval, expected=repr(want[1])[:100], observed=f'{type(e).__name__}: {str(e)[:150]}'), info
    got = res.get('c') if isinstance(res, dict) else None
    info['value'] = repr(got)[:60]
    if not isinstance(want[1], str) and (got != want[1] or type(got) is not type(want[1])):
        return dict(bucket='parser:positive:value', oracle='the value of a safe expression equals plain eval with the same names', expression=expr, grammar=g, input=nval,
                    expected=repr(want[1])[:100], observed=repr(got)[:100]), info
    return None, info


def check_parser_carrier(expr):
    """a real parse in which the AST has a list-valued key c"""
    import tatsu
    from tatsu.exceptions import TatSuException
    if '`' in expr or '\n' in expr:
        return None, {'skip': 'backtick'}
    g = "start: c+=/[a-z]/ n='bc' k=`3` r=`" + expr + "` $ ;\n"
    info = {}
    try:
        m = tatsu.compile(g, name='C17c')
    except Exception as e:
        info['skip'] = f'compile: {type(e).__name__}'
        return None, info

    def run():
        with watchdog(10):
            return m.parse('abc')
    res, exc, events, exits = MON.run(run)
    if events:
        return dict(bucket=f'parser:carrier:event:{events[0]}', oracle='no file/import/exec/compile/input/os event is attributed to a grammar constant',
                    expression=expr, grammar=g, events=events), info
    if exits or isinstance(exc, SystemExit):
        return dict(bucket='parser:carrier:exit', oracle='a grammar constant never exits the process', expression=expr, grammar=g), info
    if exc is not None and not isinstance(exc, (TatSuException, Blocked, CaseTimeout)):
        return dict(bucket=f'parser:carrier:raises:{type(exc).__name__}', oracle='a rejected expression is left as text or reported as a semantic failure',
                    expression=expr, grammar=g, observed=f'{type(exc).__name__}: {str(exc)[:150]}'), info
    info['outcome'] = 'ok' if exc is None else type(exc).__name__
    return None, info


def check_history(secret_name, secret_value, probe):
    """a name bound by an earlier parse must not be readable by a later, unrelated one"""
    import tatsu
    from tatsu.exceptions import TatSuException
    MON.install()
    g1 = f"start: {secret_name}='{secret_value}' c=`got {{{secret_name}}}` $ ;\n"
    g2 = f"start: n='abc' c=`{probe}` $ ;\n"
    try:
        m1 = tatsu.compile(g1, name='H17a')
        m2 = tatsu.compile(g2, name='H17b')
        m1.parse(secret_value)
        try:
            r = m2.parse('abc')
        except TatSuException:
            return None
    except Exception:
        return None
    c = r.get('c') if isinstance(r, dict) else r
    if isinstance(c, str) and secret_value in c:
        return dict(bucket='history:name-leak', oracle='evaluation can read only the names bound in the current AST', first=g1, second=g2, observed=c)
    return None


def plan(tier):
    n = 1500 if tier == 'quick' else 30000
    return [dict(n=n) for _ in range(16)]


def run_shard(sh, n):
    MON.install()
    names = sorted(k for k in vars(builtins) if not k.startswith('__') or k == '__import__')

    def body(rnd):
        expr, tag = gen_expr(rnd, names)
        route = rnd.choice(['direct', 'direct', 'parser:const', 'parser:alert', 'shadow'])
        nontriv = '(' in expr or '.' in expr
        cls = [f'route:{route}', f'kind:{tag[0]}']
        if tag[0] == 'call':
            cls.append(f'builtin:{tag[1]}')
        if 'confusable-spelling' in tag:
            cls.append('identifier spelled with NFKC-equivalent characters')
        d = None
        info = {}
        probe = False
        preprobe = False
        nval = 'abc'
        if tag == ('safe',) and route in ('direct', 'parser:const'):
            nval = rnd.choice(NVALS)
            cls.append('positive')
            if not nval.isascii():
                cls.append('AST value beyond Latin-1' if max(nval) > '\xff' else 'AST value non-ASCII')
            if route == 'direct':
                preprobe = rnd.random() < 0.3
                if preprobe:
                    cls.append('text first judged where its names are unbound')
                d = check_positive(expr, {'n': nval, 'k': 3}, preprobe=preprobe)
            else:
                route = 'parser:positive'
                d, info = check_parser_positive(expr, nval)
        elif tag[0] == 'frame-trick':
            if rnd.random() < 0.5:
                route = 'direct'
                d, info = check_direct(expr, {'n': 'abc', 'k': 3, 'c': [1]})
            else:
                route = 'parser:carrier'
                d, info = check_parser_carrier(expr)
        elif tag[0] == 'format-trick' and len(tag) == 3:
            route = 'direct'
            nval = tag[2]
            cls.append('format-string-is-a-value')
            d, info = check_direct(expr, {'n': nval, 'k': 3})
        elif route == 'direct':
            # f-string bodies reach the sandbox wrapped the way the engine wraps them: f'<text>'
            if tag[0] == 'fstring':
                expr = 'f' + repr(expr)
            d, info = check_direct(expr, {'n': 'abc', 'k': 3})
        elif route == 'shadow':
            sname = rnd.choice(SHADOW_NAMES)
            if rnd.random() < 0.5:
                e2 = rnd.choice([f'{sname}.upper()', f'{sname} + "x"', f'{{{sname}}}', f'{sname}', f'{sname}("x")'])
            else:
                # the AST key shadows the builtin for the safety walk; inside a nested scope (generator expression, lambda,
                # comprehension) the evaluation's locals are not visible, so the name must still not resolve to the real builtin
                e2 = rnd.choice(NESTED).replace('S', sname).replace('A', rnd.choice(["'/etc/hostname'", "'1'", "'os'", "'1', 'x', 'eval'", 'n']))
                cls.append('shadow:nested-scope')
            expr = e2
            if rnd.random() < 0.5:
                d, info = check_parser(e2, 'const', sname)
            else:
                route = 'shadow-direct'
                d, info = check_direct(e2, {'n': 'abc', 'k': 3, sname: 'abc'})
        else:
            probe = rnd.random() < 0.5
            if probe:
                cls.append('probe-values')
            d, info = check_parser(expr, route.split(':')[1], None, probe=probe)
        if info.get('skip'):
            sh.note('skipped: ' + info['skip'])
            return
        if 'safe' in info:
            cls.append('eval-safe' if info['safe'] else 'rejected')
        sh.case((expr, route, nval), nontriv, cls, sample=dict(expression=expr, route=route, info={k: v for k, v in info.items() if k != 'skip'}))
        if d is not None:
            sh.fail(d['bucket'], dict(expr=expr, route=route, shadow=expr if route.startswith('shadow') else None,
                                      sname=sname if route.startswith('shadow') else None, probe=probe, nval=nval, positive='positive' in cls, carrier=tag[0] == 'frame-trick', preprobe=preprobe), d)
    # two-step histories (first, while this process has evaluated nothing else)
    if sh.index == 0:
        for sname, sval, probe in [('password', 'hunter2', '{password}'), ('token', 'tk9', 'token'), ('secret', 's3cr3t', 'x{secret}y'), ('pw', 'zz9', '{pw!r}')]:
            d = check_history(sname, sval, probe)
            sh.case(('history', sname, probe), True, ['history'], sample=dict(history=[sname, probe]))
            if d:
                sh.fail(d['bucket'], dict(route='history', name=sname, value=sval, probe=probe), d)
    hyp_run(sh, gen.rnds(), body, n)


def replay(case):
    MON.install()
    r = case.get('route')
    if r == 'history':
        return check_history(case['name'], case['value'], case['probe'])
    if r == 'parser:positive':
        d, _ = check_parser_positive(case['expr'], case.get('nval', 'abc'))
        return d
    if r == 'parser:carrier':
        d, _ = check_parser_carrier(case['expr'])
        return d
    if r == 'direct' and case.get('carrier'):
        d, _ = check_direct(case['expr'], {'n': 'abc', 'k': 3, 'c': [1]})
        return d
    if r == 'direct':
        d, _ = check_direct(case['expr'], {'n': case.get('nval', 'abc'), 'k': 3})
        positive = case.get('positive')
        if positive is None:   # replay files written before the key existed
            positive = has_dunder_attr(case['expr']) is False and not impure_calls(case['expr'], {'n', 'k'}) and 'format' not in case['expr']
        if d is None and positive:
            d = check_positive(case['expr'], {'n': case.get('nval', 'abc'), 'k': 3}, preprobe=bool(case.get('preprobe')))
        return d
    if r in ('shadow', 'shadow-direct'):
        sname = case.get('sname') or next((s for s in SHADOW_NAMES if case['expr'].startswith(s) or '{' + s in case['expr'] or s + '(' in case['expr']), 'open')
        if r == 'shadow-direct':
            d, _ = check_direct(case['expr'], {'n': 'abc', 'k': 3, sname: 'abc'})
            return d
        d, _ = check_parser(case['expr'], 'const', sname)
        return d
    d, _ = check_parser(case['expr'], r.split(':')[1], None, probe=bool(case.get('probe')))
    return d


EXCLUSIONS = {}
