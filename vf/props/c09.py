"""C09 — whitespace, comments, nameguard and case rules are applied uniformly.

(a) metamorphic: every whitespace run replaced by another legal run (spaces, tabs, CR, LF, comments)
    leaves the outcome unchanged;  (b) RefPEG under the effective configuration on base / varied /
    adversarial layouts;  (c) layering differential: defaults < compile-time settings < directives <
    parse-time settings.
"""
from __future__ import annotations

from vf import gen, tu
from vf.core import hyp_run, reset_tatsu_state, watchdog, CaseTimeout
from vf.gast import grammar_text, shrink_rules, tup, walk
from vf.refpeg import Ref

PROPERTY = 'C09'
HISTORY_CONFIRM = True   # a failure that needs the process history is confirmed by re-running its shard from the seed
RULE = ('generated grammars whose patterns match no whitespace (no any-char, no skip-to), tokens incl. words with namechars, lower- and '
        'upper-case rules, constants, $; a configuration drawn from whitespace {default, /[ \\t]+/, \'\'} x nameguard {unset,on,off} x '
        'namechars {\'\', \'-\', \'$_\'} x ignorecase x comments/eol_comments given as directives or as parse-time settings; inputs are '
        'derived sentences laid out as base (one space per gap), varied (each run replaced by a legal run of space/tab/CR/LF/comments, plus '
        'leading and trailing runs) and adversarial (a run before a pattern, a name character glued to a word token, flipped case). Oracles: '
        'outcome(varied) == outcome(base); RefPEG under the effective configuration on all layouts; layering: compile(g+directive, **c)'
        '.parse(t, **p) == compile(g).parse(t, **effective). non-trivial = varied differs from base in >= 2 gaps, or the adversarial '
        'edit touches a matched token/pattern, or two layers disagree; distinct = distinct (grammar, config, input)')
ASSUMPTIONS = [
    'whitespace and comment patterns are non-nullable (the docs only show such patterns; nullable ones make the skipping loop spin)',
    'the reference for the adversarial layouts is RefPEG with the documented rules (whitespace before tokens, lower-case rules, constants, '
    '$, (); never before patterns or at the entry of upper-case rules; nameguard for alphanumeric tokens; ignorecase for tokens only)',
]
BUDGET_S = {'quick': 150, 'thorough': 1500}

COMMENTS = r'\(\*(?:.|\n)*?\*\)'
EOLC = r'#[^\n]*'


def plan(tier):
    n = 400 if tier == 'quick' else 6000
    return [dict(kind='layout', n=n) for _ in range(12)] + [dict(kind='layers', n=max(30, n // 3)) for _ in range(4)] + [dict(kind='legacy', n=1)]


LEGACY_NAMES = ['NAME', 'Name', 'name', 'nAME', 'N', 'n1']
LEGACY_STYLES = ['legacy-tatsumasu', 'rule-source', 'rule-source-private']
LEGACY_LAYOUTS = ['=b', '= b', '=\tb', '=\n  b', ' =b ', '=  b\n', '']


def legacy_check(name, style, text):
    """hand-written parser classes in the documented styles (methods `_NAME_` with @tatsumasu on a Parser subclass; a rule source
    with @rule methods, public or private) against the model compiled from the equivalent grammar"""
    import tatsu
    from tatsu.contexts import Ctx
    from tatsu.decorators import rule
    from tatsu.exceptions import FailedParse
    from tatsu.parsing import Parser, tatsumasu
    model = tatsu.compile(f"start: '=' {name} $ ;\n\n{name}: /[a-z]+/ ;\n")
    if style == 'legacy-tatsumasu':
        def _start_(self):
            self._token('=')
            getattr(self, f'_{name}_')()
            self._check_eof()

        def _sub_(self):
            self._pattern(r'[a-z]+')
        _start_.__name__ = '_start_'
        _sub_.__name__ = f'_{name}_'
        cls = type('VfLegacy', (Parser,), {'_start_': tatsumasu()(_start_), f'_{name}_': tatsumasu()(_sub_)})
        parse = lambda t: cls().parse(t, start='start')   # noqa: E731
    else:
        mname = ('_' + name) if style == 'rule-source-private' else name

        def start(self, ctx: Ctx):
            ctx.token('=')
            getattr(self, mname)(ctx)
            ctx.eofcheck()

        def sub(self, ctx: Ctx):
            ctx.pattern(r'[a-z]+')
        sub.__name__ = mname
        src = type('VfRules', (), {'start': rule(start), mname: rule(sub)})
        parse = lambda t: Parser(src()).parse(t, start='start')   # noqa: E731
    try:
        want = ('ok', tu.canon(model.parse(text)))
    except FailedParse:
        want = ('fail',)
    try:
        got = ('ok', tu.canon(parse(text)))
    except FailedParse:
        got = ('fail',)
    except Exception as e:
        got = ('exc', type(e).__name__, str(e)[:100])
    if got != want:
        return dict(bucket='legacy:' + style, oracle='a hand-written parser class treats an upper-case rule like the compiled model: no whitespace is skipped at its entry',
                    rule=name, input=text, model=want, observed=got)
    return None


def run_legacy(sh):
    for name in LEGACY_NAMES:
        reset_tatsu_state()
        for style in LEGACY_STYLES:
            for text in LEGACY_LAYOUTS:
                d = legacy_check(name, style, text)
                sh.case(('legacy', name, style, text), name[:1].isupper() and text[1:2].isspace(), ['legacy-style parser classes', 'legacy:' + style],
                        sample=dict(rule=name, style=style, input=text))
                if d is not None:
                    sh.fail(d['bucket'], dict(kind='legacy', name=name, style=style, input=text), d)
    sh.exhaustive['hand-written parser classes: 6 rule names x 3 styles x 7 layouts'] = True


# comment syntaxes: the usual punctuation-led ones, and word-led ones (REM ..., dnl ... lnd): a comment may begin with a name character
CSTYLES = {'std': dict(c=COMMENTS, e=EOLC, ctexts=['(* c *)', '(**)', '(* a\nb *)'], etexts=['# x y\n', '#\n']),
           'word': dict(c=r'dnl(?:.|\n)*?lnd', e=r'REM[^\n]*', ctexts=['dnl c lnd', 'dnllnd', 'dnl a\nb lnd'], etexts=['REM x y\n', 'REM\n'])}


def gen_config(rnd):
    cfg = dict(ws=rnd.choice(['default', 'default', 'blank', 'none']), nameguard=rnd.choice([None, None, True, False]),
               namechars=rnd.choice(['', '', '-', '$_']), ignorecase=rnd.random() < 0.3,
               comments=rnd.random() < 0.5, eolc=rnd.random() < 0.5)
    if cfg['namechars'] and cfg['nameguard'] is False:
        cfg['nameguard'] = None   # namechars implies nameguard (config.py); "off + namechars" is not a documented combination
    # word-led comments only where whitespace is skipped too: directly after an alphanumeric token they would read as part of the word
    cfg['cstyle'] = 'word' if cfg['ws'] != 'none' and (cfg['comments'] or cfg['eolc']) and rnd.random() < 0.3 else 'std'
    cfg['how'] = {k: rnd.choice(['directive', 'setting']) for k in ('ws', 'nameguard', 'namechars', 'ignorecase', 'comments', 'eolc')}
    return cfg


def ws_regex(cfg):
    return {'default': r'\s+', 'blank': r'[ \t]+', 'none': None}[cfg['ws']]


def config_texts(cfg):
    """returns (directives list, parse-time settings dict, Ref kwargs)"""
    directives, settings = [], {}

    def put(key, dname, dval, sname, sval):
        if cfg['how'][key] == 'directive':
            directives.append((dname, dval))
        else:
            settings[sname] = sval
    if cfg['ws'] == 'blank':
        put('ws', 'whitespace', '/[ \\t]+/', 'whitespace', '[ \\t]+')
    elif cfg['ws'] == 'none':
        put('ws', 'whitespace', 'None', 'whitespace', '')
    if cfg['nameguard'] is not None:
        put('nameguard', 'nameguard', str(cfg['nameguard']), 'nameguard', cfg['nameguard'])
    if cfg['namechars']:
        put('namechars', 'namechars', repr(cfg['namechars']), 'namechars', cfg['namechars'])
    if cfg['ignorecase']:
        put('ignorecase', 'ignorecase', 'True', 'ignorecase', True)
    cst = CSTYLES[cfg.get('cstyle', 'std')]
    if cfg['comments']:
        put('comments', 'comments', '?"' + cst['c'] + '"', 'comments', cst['c'])
    if cfg['eolc']:
        put('eolc', 'eol_comments', '/' + cst['e'] + '/', 'eol_comments', cst['e'])
    ng = cfg['nameguard']
    if cfg['namechars'] and ng is None:
        ng = True
    ref = dict(ws=ws_regex(cfg), comments=cst['c'] if cfg['comments'] else None, eol_comments=cst['e'] if cfg['eolc'] else None,
               nameguard=ng, namechars=cfg['namechars'], ignorecase=cfg['ignorecase'])
    return directives, settings, ref


def gen_run(rnd, cfg, allow_empty=False, after_name=False):
    """a non-empty run of whitespace and comments that the configuration skips.  after_name: the run follows a lexeme that ends in a name
    character, so a word-led comment must not come first (it would read as the rest of that word)"""
    if cfg['ws'] == 'none':
        return rnd.choice(['(* c *)', '(**)']) if cfg['comments'] else ''
    cst = CSTYLES[cfg.get('cstyle', 'std')]
    wschars = [' ', '\t'] if cfg['ws'] == 'blank' else [' ', '\t', '\n', '\r', '\r\n', '  ']
    n = rnd.randint(1, 3)
    out = ''
    for i in range(n):
        r = rnd.random()
        if i == 0 and after_name and cfg.get('cstyle') == 'word':
            r = 0.0
        if r < 0.6:
            out += rnd.choice(wschars)
        elif r < 0.8 and cfg['comments']:
            out += rnd.choice(cst['ctexts'])
        elif r < 0.95 and cfg['eolc'] and cfg['ws'] == 'default':
            out += rnd.choice(cst['etexts'])
        else:
            out += rnd.choice(wschars)
    return out


def layouts(rnd, cfg, lexs, upper_start=False):
    """returns dict name -> text; gaps where the derivation allows whitespace get a run"""
    base = ''
    varied = ''
    ngaps = 0
    for i, lx in enumerate(lexs):
        if i and not lx.glue:
            need = True
            if cfg['ws'] == 'none':
                # no whitespace is skipped: only comments can separate lexemes; base uses one canonical comment per gap
                if cfg['comments']:
                    base += '(**)'
                    varied += rnd.choice(['(* c *)', '(**)(* d *)', '(* a\nb *)'])
                    ngaps += 1
            else:
                base += ' '
                varied += gen_run(rnd, cfg, after_name=_ends_in_name(lexs[i - 1].text, cfg))
                ngaps += 1
        base += lx.text
        varied += lx.text
    lead = gen_run(rnd, cfg) if rnd.random() < 0.5 and not upper_start else ''
    trail = gen_run(rnd, cfg, after_name=bool(lexs) and _ends_in_name(lexs[-1].text, cfg)) if rnd.random() < 0.5 else ''
    out = dict(base=base, varied=lead + varied + trail)
    # adversarial edits (decided by the reference only)
    adv = []
    if upper_start:
        # an upper-case start rule skips nothing at its entry: a leading run is only accepted if the first element skips it itself
        adv.append(gen_run(rnd, cfg) + base)
    if cfg['ws'] != 'none':
        for i, lx in enumerate(lexs):
            if i and lx.glue:
                t = ' '.join(l.text for l in lexs[:i]) + ' ' + lx.text + ''.join((' ' if not l.glue else '') + l.text for l in lexs[i + 1:])
                adv.append(t)     # a run before a pattern
                break
    words = [i for i, lx in enumerate(lexs) if lx.kind == 'tok' and lx.text[:1].isalpha()]
    if words:
        i = rnd.choice(words)
        glue = rnd.choice(['x', '1', '-', '_', '$'])
        parts = [(l.text + glue if j == i else l.text) for j, l in enumerate(lexs)]
        adv.append(_join(parts, lexs, cfg))
        parts = [(l.text.upper() if j == i else l.text) for j, l in enumerate(lexs)]
        adv.append(_join(parts, lexs, cfg))
    pats = [i for i, lx in enumerate(lexs) if lx.kind == 'pat' and lx.text.isalpha()]
    if pats:
        i = rnd.choice(pats)
        parts = [(l.text.upper() if j == i else l.text) for j, l in enumerate(lexs)]
        adv.append(_join(parts, lexs, cfg))
    for k, t in enumerate(adv):
        out[f'adv{k}'] = t
    return out, ngaps


def _ends_in_name(text, cfg):
    return bool(text) and (text[-1].isalnum() or text[-1] == '_' or text[-1] in (cfg.get('namechars') or ''))


def _join(parts, lexs, cfg):
    s = ''
    for i, (p, lx) in enumerate(zip(parts, lexs)):
        if i and not lx.glue:
            s += ' ' if cfg['ws'] != 'none' else ('(**)' if cfg['comments'] else '')
        s += p
    return s


def no_ws_patterns(rules):
    return not any(e[0] in ('dot', 'skipto') for _, x in rules for e in walk(x))


def run(model, text, settings):
    return tu.parse_wrapped(model, text, **settings)


def check_layout(rules, cfg, texts, model=None):
    """texts: dict layout-name -> text.  returns (detail|None, info)"""
    rules = [(n, tup(x)) for n, x in rules]
    directives, settings, refkw = config_texts(cfg)
    start = rules[0][0]
    info = {}
    if model is None:
        gtext = tu.wrapped_text(grammar_text(rules, directives), start)
        try:
            model = tu.compile_grammar(gtext)
        except Exception as e:
            return dict(bucket=f'compile:{type(e).__name__}', oracle='grammar compiles', observed=str(e)[:300], grammar=gtext), info
    outs = {}
    try:
        with watchdog(15):
            for name, t in texts.items():
                outs[name] = run(model, t, settings)
    except CaseTimeout:
        info['timeout'] = True
        return None, info
    for name, t in texts.items():
        o = outs[name]
        if o[0] == 'exc':
            return dict(bucket=f'exc:{o[1]}', oracle='parse returns or raises a parse failure', layout=name, input=t, observed=o), info
    # the same settings handed over as a configuration object, and through tatsu.parse(): directives must survive both
    try:
        from tatsu.config import ParserConfig
        import tatsu
        with watchdog(15):
            for name, t in texts.items():
                via_cfg = tu.parse_wrapped(model, t, config=ParserConfig(**settings))
                if via_cfg != outs[name]:
                    return dict(bucket='route:config-object', oracle='model.parse(text, config=ParserConfig(**settings)) == model.parse(text, **settings)',
                                layout=name, input=t, settings=settings, by_settings=outs[name], by_config=via_cfg), info
            gtext_full = tu.wrapped_text(grammar_text(rules, directives), start)
            try:
                a = tatsu.parse(gtext_full, texts['base'], start='VF_WRAP', **settings)
                via_api = ('ok', len(texts['base']) - len(a['rest']), tu.canon(a['v']))
            except Exception as e:
                from tatsu.exceptions import FailedParse
                via_api = ('fail', type(e).__name__, e.pos) if isinstance(e, FailedParse) else ('exc', type(e).__name__, str(e)[:100])
            if via_api[:2] != outs['base'][:2] or (via_api[0] == 'ok' and via_api != outs['base']):
                return dict(bucket='route:tatsu.parse', oracle='tatsu.parse(grammar, text, **settings) == compile(grammar).parse(text, **settings)',
                            input=texts['base'], settings=settings, by_model=outs['base'], by_api=via_api), info
    except CaseTimeout:
        pass
    # (a) metamorphic, reference-free.  consumed length differs by construction; compare accept + AST
    b, v = outs['base'], outs['varied']
    info['base'] = b[0]
    rb = Ref(rules, texts['base'], **refkw)
    rb.parse(start)
    empty_iterations = 'U2' in rb.flags   # an iteration that matches nothing but whitespace: unspecified (U2), not judged
    if not empty_iterations and (b[0] != v[0] or (b[0] == 'ok' and b[2] != v[2])):
        return dict(bucket='metamorphic', oracle='replacing whitespace runs by other legal runs (and adding leading/trailing runs) leaves the outcome unchanged',
                    base=dict(input=texts['base'], outcome=b), varied=dict(input=texts['varied'], outcome=v)), info
    # (b) reference on every layout
    for name, t in texts.items():
        ref = Ref(rules, t, **refkw)
        r = ref.parse(start)
        if r[0] == 'budget' or set(ref.flags) & {'U2', 'U7', 'U11', 'U12', 'LR'} or ref.openlist_values:
            continue
        rr = ('fail',) if r[0] == 'fail' else ('ok', r[1], tu.canon(r[2]))
        o = outs[name]
        if rr[0] != o[0] or (rr[0] == 'ok' and rr[1] != o[1]):
            return dict(bucket=f'ref-accept:{"adversarial" if name.startswith("adv") else name}', oracle='accept/consumed length agree with RefPEG under the effective configuration',
                        layout=name, input=t, expected=rr, observed=o, config=refkw), info
        if rr[0] == 'ok' and not ref.flags and rr[2] != o[2]:
            return dict(bucket=f'ref-ast:{"adversarial" if name.startswith("adv") else name}', oracle='AST agrees with RefPEG under the effective configuration',
                        layout=name, input=t, expected=rr, observed=o, config=refkw), info
        if name.startswith('adv'):
            info['adv_judged'] = info.get('adv_judged', 0) + 1
    return None, info


def run_layout(sh, n):
    gcfg = gen.GenCfg(cut=False, skipto=False)

    def body(rnd):
        reset_tatsu_state()
        rules = gen.gen_rules(rnd, gcfg)
        # no any-char: replace by a token
        from vf.gast import children, replace_children

        def nodot(e):
            if e[0] == 'dot':
                return ('tok', 'b')
            return replace_children(e, [nodot(c) for c in children(e)])
        rules = [(nm, nodot(x)) for nm, x in rules]
        cfg = gen_config(rnd)
        if (cfg['namechars'] == '-' and rnd.random() < 0.5) or (cfg['namechars'] != '-' and rnd.random() < 0.2):
            # (also without the name character: the same token text is then not a name, whatever an earlier parse in this process decided)
            # a word token containing the name character
            def tk(e):
                if e[0] == 'tok' and e[1] == 'a':
                    return ('tok', 'a-b')
                return replace_children(e, [tk(c) for c in children(e)])
            rules = [(nm, tk(x)) for nm, x in rules]
        opener = cfg['comments'] and rnd.random() < 0.4
        if opener:
            # a token that is a prefix of the comment opener: '(' with (* ... *) comments.  Skipping comes first: a comment written
            # right after the previous lexeme is skipped before '(' is tried, and '(' itself is never the start of a comment here
            victim = rnd.choice([',', '+', ';', 'c'])

            def op(e):
                if e[0] == 'tok' and e[1] == victim:
                    return ('tok', '(')
                return replace_children(e, [op(c) for c in children(e)])
            rules = [(nm, op(x)) for nm, x in rules]
        directives, settings, refkw = config_texts(cfg)
        upper_start = rnd.random() < 0.25
        if upper_start:
            def rn(e):
                if e[0] == 'call' and e[1] == rules[0][0]:
                    return ('call', 'Top')
                return replace_children(e, [rn(c) for c in children(e)])
            rules = [('Top' if i == 0 else nm, rn(x)) for i, (nm, x) in enumerate(rules)]
        start = rules[0][0]
        gtext = tu.wrapped_text(grammar_text(rules, directives), start)
        try:
            model = tu.compile_grammar(gtext)
        except Exception as e:
            sh.fail(f'compile:{type(e).__name__}', dict(kind='layout', rules=rules, cfg=cfg, texts=dict(base='', varied='')),
                    dict(bucket=f'compile:{type(e).__name__}', observed=str(e)[:300], grammar=gtext))
            return
        rmap = dict(rules)
        for _ in range(4):
            lx = gen.derive(rnd, rmap, rmap[start])
            if rnd.random() < 0.2:
                lx = gen.near_miss(rnd, lx)
            texts, ngaps = layouts(rnd, cfg, lx, upper_start)
            d, info = check_layout(rules, cfg, texts, model)
            cls = [f'ws:{cfg["ws"]}', f'nameguard:{cfg["nameguard"]}', f'namechars:{cfg["namechars"]!r}', f'ignorecase:{cfg["ignorecase"]}',
                   'comments' if cfg['comments'] else 'no-comments', 'comment-syntax:' + cfg.get('cstyle', 'std'), 'eol_comments' if cfg['eolc'] else 'no-eol-comments', f'base:{info.get("base")}']
            if info.get('adv_judged'):
                cls.append('adversarial-judged')
            if upper_start:
                cls.append('upper-case start rule')
            if opener and any(l.text == '(' for l in lx):
                cls.append('token that is a prefix of the comment opener')
            sh.case((gtext, str(sorted(settings.items())), texts['base'], texts['varied']), ngaps >= 2 or bool(info.get('adv_judged')), cls,
                    sample=dict(grammar=grammar_text(rules, directives), settings=settings, layouts=texts))
            if d is not None:
                sh.fail(d['bucket'], dict(kind='layout', rules=rules, cfg=cfg, texts=texts), d)
    hyp_run(sh, gen.rnds(), body, n)


# ------------------------------------------------------------------ (c) layering
LAYER_VALUES = {
    'whitespace': [('/[ \\t]+/', '[ \\t]+'), ("/[ ]+/", '[ ]+'), ('None', '')],
    'nameguard': [('True', True), ('False', False)],
    'ignorecase': [('True', True), ('False', False)],
    'namechars': [("'-'", '-'), ("'$'", '$')],
    'comments': [('?"' + COMMENTS + '"', COMMENTS), ('/%%.*?%%/', '%%.*?%%')],
    'eol_comments': [('/' + EOLC + '/', EOLC), ('/;;[^\\n]*/', ';;[^\\n]*')],
}


def check_layers(rules, setting, layers, text):
    """layers: dict with optional keys compile / directive / parse -> index into LAYER_VALUES[setting]"""
    rules = [(n, tup(x)) for n, x in rules]
    start = rules[0][0]
    vals = LAYER_VALUES[setting]
    directives = [(setting, vals[layers['directive']][0])] if 'directive' in layers else []
    ckw = {setting: vals[layers['compile']][1]} if 'compile' in layers else {}
    pkw = {setting: vals[layers['parse']][1]} if 'parse' in layers else {}
    eff = layers.get('parse', layers.get('directive', layers.get('compile')))
    info = dict(nlayers=len(layers), disagree=len({layers[k] for k in layers}) > 1)
    import tatsu
    global _ln
    _ln += 1
    try:
        with watchdog(15):
            try:
                layered = tatsu.compile(tu.wrapped_text(grammar_text(rules, directives), start), name=f'L{_ln}a', **ckw)
            except Exception as e:
                return dict(bucket=f'layers:compile-raises:{setting}', oracle='a compile-time setting is a default for the model, it must not break compilation',
                            observed=f'{type(e).__name__}: {str(e)[:200]}', compile_settings=ckw), info
            plain = tatsu.compile(tu.wrapped_text(grammar_text(rules), start), name=f'L{_ln}b')
            a = tu.parse_wrapped(layered, text, **pkw)
            b = tu.parse_wrapped(plain, text, **({setting: vals[eff][1]} if eff is not None else {}))
    except CaseTimeout:
        return None, info
    if a != b:
        return dict(bucket=f'layers:{setting}:{"+".join(sorted(layers))}', oracle='parse-time setting > directive > compile-time setting > default',
                    layers={k: vals[v][1] for k, v in layers.items()}, effective=vals[eff][1] if eff is not None else 'default',
                    layered=a, expected=b), info
    return None, info


_ln = 0


def run_layers(sh, n):
    gcfg = gen.GenCfg(cut=False, skipto=False, depth=2, maxrules=2)

    def body(rnd):
        reset_tatsu_state()
        rules = gen.gen_rules(rnd, gcfg)
        setting = rnd.choice(sorted(LAYER_VALUES))
        nv = len(LAYER_VALUES[setting])
        layers = {}
        for k in ('compile', 'directive', 'parse'):
            if rnd.random() < 0.55:
                layers[k] = rnd.randrange(nv)
        if not layers:
            layers['parse'] = rnd.randrange(nv)
        rmap = dict(rules)
        start = rules[0][0]
        for _ in range(3):
            lx = gen.derive(rnd, rmap, rmap[start])
            text = gen.layout(rnd, lx, rnd.choice(['base', 'varied', 'tight']))
            if setting in ('comments', 'eol_comments'):
                text = text.replace(' ', rnd.choice([' (* c *) ', ' %%c%% ', ' # c\n', ' ;; c\n', ' ']), 1)
            if setting == 'ignorecase' and rnd.random() < 0.6:
                text = text.upper()
            if setting == 'namechars':
                text = text.replace(' ', rnd.choice(['-', '$', ' ']), 1)
            d, info = check_layers(rules, setting, layers, text)
            sh.case(('layers', grammar_text(rules), setting, str(sorted(layers.items())), text), info.get('disagree', False),
                    [f'layers:{setting}', 'layers:' + '+'.join(sorted(layers))],
                    sample=dict(grammar=grammar_text(rules), setting=setting, layers=layers, input=text))
            if d is not None:
                sh.fail(d['bucket'], dict(kind='layers', rules=rules, setting=setting, layers=layers, input=text), d)
    hyp_run(sh, gen.rnds(), body, n, label='layers')


def run_shard(sh, kind, n):
    if kind == 'layout':
        return run_layout(sh, n)
    if kind == 'legacy':
        return run_legacy(sh)
    return run_layers(sh, n)


def replay(case):
    if case.get('kind') == 'legacy':
        return legacy_check(case['name'], case['style'], case['input'])
    if case.get('kind') == 'layers':
        d, _ = check_layers(case['rules'], case['setting'], case['layers'], case['input'])
        return d
    d, _ = check_layout(case['rules'], case['cfg'], case['texts'])
    return d


def shrink_candidates(case):
    if case.get('kind') == 'legacy':
        return
    rules = [(n, tup(x)) for n, x in case['rules']]
    if case.get('kind') == 'layers':
        text = case['input']
        for i in range(len(text)):
            yield dict(case, input=text[:i] + text[i + 1:])
        for r2 in shrink_rules(rules):
            if r2 and r2[0][0] == rules[0][0]:
                yield dict(case, rules=r2)
        return
    texts = case['texts']
    for k in [k for k in texts if k.startswith('adv')]:
        yield dict(case, texts={a: b for a, b in texts.items() if a != k})
    for r2 in shrink_rules(rules):
        if r2 and r2[0][0] == rules[0][0]:
            yield dict(case, rules=r2)


def _f_c09_a(case, detail):
    """settings given to tatsu.compile() are used to parse the grammar text and never reach the model: the discrepancy
    (or the compile error) disappears when the compile-time layer is left out"""
    if case.get('kind') != 'layers' or 'compile' not in case.get('layers', {}):
        return False
    rest = {k: v for k, v in case['layers'].items() if k != 'compile'}
    if not rest:
        # only a compile-time value: equivalent to no setting at all
        import tatsu
        rules = [(n, tup(x)) for n, x in case['rules']]
        plain = tatsu.compile(tu.wrapped_text(grammar_text(rules), rules[0][0]), name='F09a')
        vals = LAYER_VALUES[case['setting']]
        a = tu.parse_wrapped(plain, case['input'])
        b = tu.parse_wrapped(plain, case['input'], **{case['setting']: vals[case['layers']['compile']][1]})
        return a != b or detail.get('bucket', '').startswith('layers:compile-raises')
    d, _ = check_layers(case['rules'], case['setting'], rest, case['input'])
    return d is None


EXCLUSIONS = {'F-C09-a': _f_c09_a}
