"""C14 — serialized grammar models reload to equivalent parsers; asjson always yields dumpable data."""
from __future__ import annotations

import json
import pickle

from vf import gen, tu
from vf.core import hyp_run, reset_tatsu_state, watchdog, CaseTimeout
from vf.gast import grammar_text, shrink_rules, tup, walk
from vf.props import c13

PROPERTY = 'C14'
RULE = ('C13\'s full-language grammars with token and constant texts that collide with the loaders\' string sniffing (f{x:>3}, \\e[1m, {..}, '
        '@.., __class__, Type@0x..), rule parameters, directives (incl. falsy values), keywords (incl. a single one), single-rule grammars; '
        'each model is reloaded through Grammar.loads(json.dumps(model.asjson())), pickle.loads(pickle.dumps(model)) and exec(to_parsermodel_'
        'sourcecode(text)) -> <Name>Parser: same rules/params/directives/keywords and equal outcomes on derived sentences and near misses. '
        'Second domain: parse results and object models (typed rules) and hand-built structures with shared and cyclic references: asjson() '
        'returns within 5 s, json.dumps accepts the result, a cyclic reference is rendered as a reference. non-trivial = the reloaded '
        'model accepted and rejected at least one input, or the structure has a genuine cycle / shared reference; distinct = distinct '
        '(grammar, route) / structure')
ASSUMPTIONS = ['parser equality is observed on generated inputs, not proved']
BUDGET_S = {'quick': 150, 'thorough': 1500}

SNIFF_TOKS = ['f{x:>3}', '\\e[1m', '\\e[31mX', '{a}', '{', '@x', '__class__', 'T@0x1f', 'f{', '\\x1b[0m', '~a4~', 'None', 'true', '0', '']
SNIFF_CONSTS = ['f{x}', '0', "''", '[]', '1j', "b'x'", 'False', '{n}', '\\e[1m']


def reload_routes(gtext, name, inputs=()):
    """yields (route, callable returning (model_for_structure or None, parse function))"""
    import tatsu
    from tatsu.peg import Grammar

    def via_json():
        m = tatsu.compile(gtext, name=name)
        m2 = Grammar.loads(json.dumps(m.asjson()))
        return m2, m2.parse

    def via_pickle():
        m = tatsu.compile(gtext, name=name)
        m2 = pickle.loads(pickle.dumps(m))
        return m2, m2.parse

    def via_pickle_used():
        # a model that has already parsed (it caches its optimized, linked copy) must pickle as well as a fresh one
        m = tatsu.compile(gtext, name=name)
        for t in list(inputs)[:2]:
            try:
                m.parse(t)
            except Exception:
                pass
        m2 = pickle.loads(pickle.dumps(m))
        return m2, m2.parse

    def via_json_used():
        m = tatsu.compile(gtext, name=name)
        for t in list(inputs)[:2]:
            try:
                m.parse(t)
            except Exception:
                pass
        m2 = Grammar.loads(json.dumps(m.asjson()))
        return m2, m2.parse

    def via_source():
        from tatsu.api.api import to_parsermodel_sourcecode
        src = to_parsermodel_sourcecode(gtext, name=name)
        mod = tu.load_generated(src, 'vf14src')
        try:
            cls = getattr(mod, name + 'Parser', None) or tu.find_parser_class(mod)
            gm = getattr(mod, 'GRAMMAR_MODEL', None)
            p = cls()
            # <Name>Parser.parse defaults to asmodel=True; compare like with like
            return gm, (lambda t, **kw: p.parse(t, asmodel=False, **kw))
        finally:
            tu.unload(mod)
    return [('json', via_json), ('pickle', via_pickle), ('source', via_source), ('pickle-used', via_pickle_used), ('json-used', via_json_used)]


_n = [0]


def count_parseinfo(x, depth=0):
    if depth > 40:
        return 0
    if isinstance(x, dict):
        return int('parseinfo' in x and x['parseinfo'] is not None) + sum(count_parseinfo(v, depth + 1) for k, v in x.items() if k not in ('parseinfo', '__parseinfo__'))
    if isinstance(x, (list, tuple)):
        return sum(count_parseinfo(v, depth + 1) for v in x)
    return 0


def check(gtext, inputs, only=None, starts=None):
    """starts: [(rule name, [texts])] - parses from rules other than the first one (start=<rule>) must agree as well"""
    import tatsu
    info = dict(accepted=0, rejected=0)
    _n[0] += 1
    name = f'S14n{_n[0]}'
    try:
        with watchdog(60):
            try:
                m = tatsu.compile(gtext, name=name)
            except Exception as e:
                info['skip'] = f'source model: {type(e).__name__}'
                return None, info
            s1 = c13.structure(m)
            base = [tu.outcome(lambda t=t: m.parse(t)) for t in inputs]
            for route, fn in reload_routes(gtext, name, inputs):
                if only and route != only:
                    continue
                try:
                    m2, parse = fn()
                except Exception as e:
                    return dict(bucket=f'{route}:reload-raises:{type(e).__name__}', oracle='the serialized model loads back', observed=str(e)[:300].replace('\n', ' | '),
                                grammar=gtext[:400]), info
                if m2 is not None:
                    s2 = c13.structure(m2)
                    for key in ('rules', 'directives', 'keywords'):
                        if s1[key] != s2[key]:
                            return dict(bucket=f'{route}:structure:{key}', oracle='the reloaded model has the same rules, directives and keywords',
                                        original=s1[key], reloaded=s2[key]), info
                for t, a in zip(inputs, base):
                    b = tu.outcome(lambda: parse(t))
                    if not tu.same_outcome(a, b):
                        return dict(bucket=f'{route}:behaviour', oracle='the reloaded model accepts the same inputs and returns equal ASTs', input=t,
                                    original=a, reloaded=b), info
                    info['accepted'] += a[0] == 'ok'
                    info['rejected'] += a[0] != 'ok'
                    if a[0] == 'ok' and '@@parseinfo :: True' in gtext:
                        try:
                            na, nb = count_parseinfo(m.parse(t)), count_parseinfo(parse(t))
                        except Exception:
                            na = nb = 0
                        if na != nb:
                            return dict(bucket=f'{route}:parseinfo-directive', oracle='the reloaded model keeps the directives (@@parseinfo :: True: equal ASTs carry parse information)',
                                        input=t, parseinfo_entries_original=na, parseinfo_entries_reloaded=nb), info
                for rule, texts in (starts or []):
                    for t in texts:
                        a = tu.outcome(lambda: m.parse(t, start=rule))
                        b = tu.outcome(lambda: parse(t, start=rule))
                        if not tu.same_outcome(a, b):
                            return dict(bucket=f'{route}:behaviour-start', oracle='the reloaded model accepts the same inputs from every rule (start=<rule>) and returns equal ASTs', input=t,
                                        start=rule, original=a, reloaded=b), info
                        info['started'] = info.get('started', 0) + 1
            # asjson of parse results
            for t, a in zip(inputs, base):
                if a[0] != 'ok':
                    continue
                for asmodel in (False, True):
                    try:
                        res = m.parse(t, asmodel=asmodel)
                    except Exception:
                        continue
                    d = check_asjson(res, f'parse-result:{"model" if asmodel else "ast"}')
                    if d:
                        d['input'] = t
                        return d, info
            d = check_asjson(m, 'grammar-model')
            if d:
                return d, info
    except CaseTimeout:
        info['skip'] = 'timeout'
    return None, info


def check_asjson(obj, what):
    from tatsu.util.asjson import asjson
    try:
        with watchdog(5):
            data = asjson(obj)
    except CaseTimeout:
        return dict(bucket=f'asjson-hangs:{what}', oracle='asjson terminates', observed='no result within 5 s')
    except RecursionError:
        return dict(bucket=f'asjson-RecursionError:{what}', oracle='asjson terminates', observed='RecursionError')
    except Exception as e:
        return dict(bucket=f'asjson-raises:{what}:{type(e).__name__}', oracle='asjson returns data', observed=str(e)[:200])
    try:
        json.dumps(data)
    except Exception as e:
        return dict(bucket=f'asjson-not-dumpable:{what}:{type(e).__name__}', oracle='the json module can dump what asjson returns', observed=str(e)[:200])
    return None


def check_structure(kind):
    """hand-built structures with shared and cyclic references"""
    from tatsu.objectmodel import Node
    from tatsu.util.asjson import asjson

    class N14(Node):
        pass
    if kind == 'list-self':
        x = [1, 2]
        x.append(x)
    elif kind == 'dict-self':
        x = {'a': 1}
        x['me'] = x
    elif kind == 'node-parent':
        a = N14(ast='leaf')
        b = N14(ast=[a])
        a.up = b
        x = b
    elif kind == 'node-shared':
        a = N14(ast='leaf')
        x = {'l': a, 'r': a, 'n': [a, a]}
    elif kind == 'deep':
        x = []
        cur = x
        for _ in range(300):
            nxt = []
            cur.append(nxt)
            cur = nxt
    elif kind == 'tuple-cycle':
        lst = []
        x = (1, lst)
        lst.append(x)
    else:
        x = {'k': [1, 'two', 3.0, None, True, (4, 5), {6}]}
    d = check_asjson(x, 'structure:' + kind)
    if d:
        return d
    try:
        data = asjson(x)
    except Exception:
        return None
    if kind in ('list-self', 'dict-self', 'node-parent', 'tuple-cycle'):
        s = json.dumps(data)
        if '@0x' not in s and '@' not in s:
            return dict(bucket=f'cycle-not-a-reference:{kind}', oracle='a cyclic reference is rendered as a reference (Type@0x...)', observed=s[:200])
    return None


SEM_MODULES = [
    # (module path, rule named like one of its functions, pattern of the rule, inputs): the usual layout is a semantics module inside a package
    ('email.utils', 'unquote', '"[a-z]*"', ['"abc"', '""']),
    ('xml.sax.saxutils', 'escape', '[a-z&<]+', ['a&b', 'x<y']),
    ('urllib.parse', 'quote', '[a-z ]+', ['a b', 'ab']),
    ('html', 'escape', '[a-z&<]+', ['a&b']),                 # a top-level package
    ('json', 'dumps', '[a-z]+', ['ab']),
    ('os.path', 'basename', '[a-z/]+', ['a/b/c']),
    ('textwrap', 'dedent', '[ a-z]+', ['  ab']),             # a top-level module
]


class SemObj14:
    def start(self, ast):
        return ['S', ast]

    def item(self, ast):
        return ast.upper()


def check_semantics_pickle(modpath, rule, pat, inputs, how):
    """a model compiled with a semantics object / module, pickled and loaded back, parses to the same results"""
    import importlib
    import tatsu
    sem = importlib.import_module(modpath) if how == 'module' else SemObj14()
    rname = rule if how == 'module' else 'item'
    g = f"start: {{{rname}}}+ $ ;\n\n{rname}: ?'{pat}' ;\n"
    try:
        m = tatsu.compile(g, name='S14', semantics=sem)
        want = [m.parse(t) for t in inputs]
    except Exception as e:
        return None, {'skip': f'{type(e).__name__}: {e}'[:100]}
    try:
        m2 = pickle.loads(pickle.dumps(m))
        got = [m2.parse(t) for t in inputs]
    except Exception as e:
        return dict(bucket=f'pickle-semantics:{how}:raises:{type(e).__name__}', oracle='a pickled model loads back and parses', grammar=g, semantics=modpath if how == 'module' else 'object',
                    observed=str(e)[:200]), {}
    if got != want:
        return dict(bucket=f'pickle-semantics:{how}:ast', oracle='the reloaded model returns equal ASTs (its semantic actions are the same)', grammar=g,
                    semantics=modpath if how == 'module' else 'object', expected=repr(want)[:200], observed=repr(got)[:200]), {}
    return None, {}


def make_case(rnd):
    gcfg = gen.GenCfg(cut=True, maxrules=rnd.choice([1, 2, 3]))
    rules = gen.gen_rules(rnd, gcfg)
    rd, directives, keywords, sensitive = c13.decorate(rnd, rules)
    # sniffing-sensitive texts
    from vf.gast import children, replace_children
    sniff = [False]

    def sub(e):
        if e[0] == 'tok' and rnd.random() < 0.2:
            sniff[0] = True
            t = rnd.choice(SNIFF_TOKS)
            return ('tok', t) if t else e
        if e[0] == 'const' and rnd.random() < 0.4:
            sniff[0] = True
            return ('const', rnd.choice(SNIFF_CONSTS))
        if e[0] == 'const' and e[1] == 'None':
            return ('const', '7')   # a constant whose value is None is indistinguishable from "no literal" in every serialised form: not judged
        return replace_children(e, [sub(c) for c in children(e)])
    for d in rd:
        d['exp'] = sub(d['exp'])
    if rnd.random() < 0.3:
        keywords = [rnd.choice(['if', 'x'])]     # a single keyword
    if rnd.random() < 0.3:
        for dv in [('nameguard', 'False'), ('left_recursion', 'False'), ('parseinfo', 'False'), ('whitespace', 'None'), ('ignorecase', 'False')]:
            if rnd.random() < 0.4 and dv[0] not in [x[0] for x in directives]:
                directives.append(dv)
    # typed rules for object models
    if rnd.random() < 0.3:
        for i, d in enumerate(rd):
            if 'params' not in d and rnd.random() < 0.5:
                d['params'] = (f'Ty14x{_n[0]}x{rnd.randrange(10**6)}',)
    return rd, directives, keywords, sensitive or sniff[0]


THREAD_GRAMMARS = ["start: items+=item {',' items+=item} $ ;\n\nitem: name=/[a-z]+/ ['=' value=/[0-9]+/] ;\n",
                   "@@keyword :: (if then)\n\nstart: e $ ;\n\ne: e '+' t | t ;\n\nt: '(' ~ e ')' | n ;\n\nn: /[0-9]+/ ;\n"]


def check_threads(index, nthreads=4, rounds=12):
    """the JSON form of an object is a function of the object: several threads that convert the SAME model (compile() hands the same
    object to every caller with the same grammar text) or the same parse result at once each get what a lone call gets"""
    import sys
    import threading
    import tatsu
    from tatsu.util.asjson import asjson
    model = tatsu.compile(THREAD_GRAMMARS[index], name='T14')
    result = model.parse('a=1, b, c=22' if index == 0 else '(1+2)+(3)')
    shared = {'r': result, 'again': [result, result]}
    want_model = model.asjsons()
    want_result = json.dumps(asjson(shared), sort_keys=True)
    bad = []

    def work(k):
        for i in range(rounds):
            try:
                got = model.asjsons() if (i + k) % 2 else json.dumps(asjson(shared), sort_keys=True)
            except Exception as e:
                bad.append((k, i, f'{type(e).__name__}: {str(e)[:100]}'))
                continue
            if got != (want_model if (i + k) % 2 else want_result):
                bad.append((k, i, got[:160]))
    old = sys.getswitchinterval()
    sys.setswitchinterval(1e-6)
    try:
        ts = [threading.Thread(target=work, args=(k,)) for k in range(nthreads)]
        for t in ts:
            t.start()
        for t in ts:
            t.join(120)
    finally:
        sys.setswitchinterval(old)
    if bad:
        return dict(bucket='asjson:concurrent', oracle='concurrent conversions of one object each return what a lone conversion returns',
                    wrong=len(bad), of=nthreads * rounds, first=bad[0][2], expected=(want_model if (bad[0][0] + bad[0][1]) % 2 else want_result)[:160])
    return None


def plan(tier):
    n = 300 if tier == 'quick' else 4000
    return [dict(kind='grammars', n=n) for _ in range(15)] + [dict(kind='structures', n=0)]


def run_shard(sh, kind, n):
    if kind == 'structures':
        for k in ('list-self', 'dict-self', 'node-parent', 'node-shared', 'deep', 'tuple-cycle', 'plain'):
            d = check_structure(k)
            sh.case(('structure', k), k != 'plain', ['structure:' + k], sample=dict(structure=k))
            if d:
                sh.fail(d['bucket'], dict(kind='structure', structure=k), d)
        for i in range(len(THREAD_GRAMMARS)):
            for rep in range(3):
                d = check_threads(i)
                sh.case(('threads-asjson', i, rep), True, ['one object converted to JSON by several threads at once'], sample=dict(grammar=THREAD_GRAMMARS[i], threads=4, rounds=12))
                if d:
                    sh.fail(d['bucket'], dict(kind='threads', index=i), d)
                    break
        for i, (modpath, rule, pat, inputs) in enumerate(SEM_MODULES):
            for how in ('module', 'object'):
                d, info = check_semantics_pickle(modpath, rule, pat, inputs, how)
                if info.get('skip'):
                    sh.note('skipped: ' + info['skip'])
                    continue
                sh.case(('pickle-semantics', modpath, how), True, ['pickle of a model with semantics', 'semantics:' + how + (':in-package' if '.' in modpath and how == 'module' else '')],
                        sample=dict(semantics=modpath if how == 'module' else 'object', rule=rule, inputs=inputs))
                if d:
                    sh.fail(d['bucket'], dict(kind='pickle-semantics', index=i, how=how), d)
        return

    def body(rnd):
        reset_tatsu_state()
        rd, directives, keywords, sensitive = make_case(rnd)
        gtext = grammar_text(rd, directives, keywords)
        rmap = {d['name']: d['exp'] for d in rd}
        start = rd[0]['name']
        inputs = []
        for _ in range(4):
            lx = gen.derive(rnd, rmap, rmap[start])
            if rnd.random() < 0.4:
                lx = gen.near_miss(rnd, lx)
            inputs.append(gen.layout(rnd, lx, rnd.choice(['base', 'tight'])))
        starts = []
        if len(rd) >= 2:
            other = rnd.choice(rd[1:])['name']
            try:
                starts = [(other, [gen.layout(rnd, gen.derive(rnd, rmap, rmap[other]), 'base') for _ in range(2)])]
            except Exception:
                starts = []
        d, info = check(gtext, inputs, starts=starts)
        if info.get('skip'):
            sh.note('skipped: ' + info['skip'])
            return
        cls = ['routes:json+pickle+source', 'single-rule' if len(rd) == 1 else 'multi-rule']
        cls += [f'directive:{x[0]}' for x in directives]
        if keywords:
            cls.append('keywords:1' if len(keywords) == 1 else 'keywords:n')
        if info.get('started'):
            cls.append('parses from another rule (start=)')
        sh.case(gtext, info['accepted'] > 0 and info['rejected'] > 0, cls, sample=dict(grammar=gtext, inputs=inputs[:2]))
        if d is not None:
            sh.fail(d['bucket'], dict(kind='grammar', rd=rd, directives=directives, keywords=keywords, inputs=inputs, starts=starts,
                                      route=d['bucket'].split(':')[0] if d['bucket'].split(':')[0] in ('json', 'pickle', 'source') else None), d)
    hyp_run(sh, gen.rnds(), body, n)


def replay(case):
    if case.get('kind') == 'structure':
        return check_structure(case['structure'])
    if case.get('kind') == 'threads':
        for _ in range(5):      # a schedule-dependent failure: several attempts
            d = check_threads(case['index'])
            if d:
                return d
        return None
    if case.get('kind') == 'pickle-semantics':
        d, _ = check_semantics_pickle(*SEM_MODULES[case['index']], case['how'])
        return d
    rd = c13._norm_rd(case['rd'])
    gtext = grammar_text(rd, [tuple(x) for x in case.get('directives', [])], case.get('keywords', []))
    d, _ = check(gtext, case['inputs'], only=case.get('route'), starts=[(r, list(t)) for r, t in case.get('starts') or []])
    return d


def shrink_candidates(case):
    if case.get('kind') in ('structure', 'pickle-semantics'):
        return
    for c in c13.shrink_candidates(dict(case, route='compile')):
        yield dict(c, route=case.get('route'), kind='grammar')


def _f_c14_b(case, detail):
    """fromjson() turns every string that starts with backslash-e-[ or f{ into a Style object (Style serialises as its repr):
    JSON route only, grammar has such a token / constant / pattern / keyword / parameter text"""
    if not detail.get('bucket', '').startswith('json:') or case.get('kind') != 'grammar':
        return False
    texts = []
    for d in c13._norm_rd(case['rd']):
        for e in walk(d['exp']):
            if e[0] in ('tok', 'pat', 'const', 'alert'):
                texts.append(e[1])
        texts += [str(p) for p in d.get('params') or ()] + [str(v) for v in (d.get('kwparams') or {}).values()]
    texts += list(case.get('keywords') or [])
    return any(t.startswith(('\\e[', 'f{')) for t in texts)


EXCLUSIONS = {'F-C14-b': _f_c14_b}
