"""C19 — the packet queue is lossless and delivers each packet once, in order."""
from __future__ import annotations

import contextlib
import io
import os
import shutil
import tempfile

from hypothesis import strategies as st

from vf import gen
from vf.core import h64, hyp_run

PROPERTY = 'C19'
RULE = ('(a) payloads: recursive JSON values (dicts with string keys, lists, strings, ints, bools, None, finite floats) whose strings are biased to '
        'the encoding\'s own alphabet (runs of >= 4 equal characters, ~, ~c9~-like fragments, digits after runs, quotes, backslashes, backslash-e, '
        'backslash-x1b, "@":, keys @ and __class__, non-BMP); oracle: unpack(pack(Packet(to, data))) has the same to and data. (b) histories: a '
        'Hypothesis RuleBasedStateMachine with one writer and 1-3 readers on one temp file (send, receive k items on reader i with the generator '
        'left open so that sends interleave with a receive in progress, drain, new reader), clock owned by the harness; model = list of completed '
        'sends; every reader\'s deliveries are a prefix of the model at all times and the whole model after a drain. (c) crash points: after a '
        'short history the last record is cut at EVERY byte offset (exhaustive), read, completed, read again; and one byte of the last record is '
        'flipped: a truncated or corrupted line is never delivered, earlier packets are neither lost nor repeated, later ones still arrive. '
        'non-trivial = payload with an encoding-alphabet character in a string of length >= 3 / >= 2 sends interleaved with a partially consumed '
        'receive / truncation inside a multi-byte character or the checksum prefix; distinct = distinct payload / history / (record, offset)')
ASSUMPTIONS = [
    'packet ids come from time.monotonic_ns modulo 10^8; the harness owns that clock (strictly increasing steps < 10^7 ns), so id collisions after exactly 0.1 s are outside the domain',
    'an exception escaping receive() on a cut file is tolerated if the reader\'s later reads still deliver every packet exactly once, in order',
]
BUDGET_S = {'quick': 120, 'thorough': 1200}


# ------------------------------------------------------------------ owned clock
class Clock:
    def __init__(self):
        self.t = 10 ** 9

    def monotonic_ns(self):
        self.t += 1237
        return self.t


CLOCK = Clock()


def own_clock():
    import time as realtime

    from tatsu.util import misc

    class Shim:
        def __getattr__(self, name):
            return getattr(realtime, name)

        def monotonic_ns(self):
            return CLOCK.monotonic_ns()
    if not isinstance(misc.time, Shim) and type(misc.time).__name__ != 'Shim':
        misc.time = Shim()


def quiet(fn):
    buf = io.StringIO()
    with contextlib.redirect_stderr(buf), contextlib.redirect_stdout(buf):
        return fn()


# ------------------------------------------------------------------ (a) payloads
ALPHA = st.sampled_from(list("~~~aaab1290\\e\"'@:{}[]fx ,.\n\t") + ['é', '😀', '\x1b', '    ', 'aaaa', 'bbbbb', '\x85', '\u2028', '\u2029', '\x0b', '\x0c', '\x1c', '\x1e', '\r', '\r\n'])
SPECIAL = ['~a1~', '~a4~', 'aaaa', 'aaaaa5', '~~', '~~~', 'a~~', '\\e[1m', '\\x1b', '\\e', 'f{x}', 'f{a:>3}', '"@":', '__class__', '@', '~ 4~', '~~4~', '~x12~', '1111122',
           '\\\\e', '\\u001b', '"', '\\"', '~', '', ' ', '~9~', 'xxxx~', '~xxxx', '{"hash":"0000","data":1}']


def s_str():
    return st.one_of(st.lists(ALPHA, max_size=8).map(''.join), st.sampled_from(SPECIAL), st.sampled_from(SPECIAL))


def json_values():
    leaf = st.one_of(st.none(), st.booleans(), st.integers(-5, 10 ** 12), st.floats(allow_nan=False, allow_infinity=False), s_str(), s_str())
    return st.recursive(leaf, lambda ch: st.one_of(st.lists(ch, max_size=3), st.dictionaries(s_str(), ch, max_size=3)), max_leaves=6)


def strings_in(x):
    if isinstance(x, str):
        yield x
    elif isinstance(x, dict):
        for k, v in x.items():
            yield k
            yield from strings_in(v)
    elif isinstance(x, list):
        for v in x:
            yield from strings_in(v)


def same_value(a, b):
    if type(a) is not type(b):
        return False
    if isinstance(a, dict):
        return set(a) == set(b) and all(same_value(a[k], b[k]) for k in a)
    if isinstance(a, list):
        return len(a) == len(b) and all(same_value(x, y) for x, y in zip(a, b))
    return a == b


def check_roundtrip(to, data):
    from tatsu.packetz.packet import Packet, pack, unpack
    own_clock()
    try:
        q = quiet(lambda: unpack(pack(Packet(to=to, data=data))))
    except Exception as e:
        return dict(bucket=f'roundtrip:raises:{type(e).__name__}', oracle='unpack(pack(p)) returns the packet', observed=str(e)[:150], to=to, data=data)
    gto, gdata = getattr(q, 'to', None), getattr(q, 'data', None)
    if not same_value(to, gto):
        return dict(bucket='roundtrip:to', oracle='same recipient after pack/unpack', expected=to, observed=repr(gto)[:100])
    if not same_value(data, gdata):
        return dict(bucket='roundtrip:data', oracle='same data after pack/unpack', expected=data, observed=repr(gdata)[:200])
    return None


def class_of_payload(to, data):
    out = set()
    for s in list(strings_in(data)) + ([to] if isinstance(to, str) else []):
        if '~' in s:
            out.add('tilde')
        if any(s[i] == s[i + 1] == s[i + 2] == s[i + 3] for i in range(len(s) - 3)):
            out.add('run>=4')
        if '\\e' in s or '\\x1b' in s or '\x1b' in s:
            out.add('escape')
        if s.startswith(('f{', '\\e[')):
            out.add('style-prefix')
        if s in ('@', '__class__') or '"@":' in s:
            out.add('class-marker')
    return out


# ------------------------------------------------------------------ (c) crash points
def crash_points(payloads, last, tmpdir, stride=1):
    """payloads: completed sends; last: the record that is cut.  returns (list of failures, n offsets, nontrivial offsets)"""
    from tatsu.packetz.packet import Packet, pack
    from tatsu.packetz.queue import PacketzQueue
    own_clock()
    fails = []
    lines = [pack(Packet(to=t, data=d)) + '\n' for t, d in payloads]
    lastline = pack(Packet(to=last[0], data=last[1])) + '\n'
    after = pack(Packet(to='after', data=1)) + '\n'
    head = ''.join(lines).encode('utf-8')
    lb = lastline.encode('utf-8')
    nontriv = 0
    offsets = list(range(0, len(lb) + 1, stride))
    for k in offsets:
        path = os.path.join(tmpdir, f'q{k}.jsonl')
        with open(path, 'wb') as f:
            f.write(head + lb[:k])
        rd = quiet(lambda: PacketzQueue(path=path))
        got = []
        escaped = None

        def take():
            # what the reader hands out before an exception still counts as delivered
            for p in rd.receive():
                got.append((p.to, p.data))
        try:
            quiet(take)
        except Exception as e:
            escaped = type(e).__name__
        with open(path, 'ab') as f:
            f.write(lb[k:] + after.encode('utf-8'))
        try:
            quiet(take)
        except Exception as e:
            fails.append(dict(bucket=f'crash:raises-after-completion:{type(e).__name__}', oracle='after the record is completed the reader recovers', offset=k,
                              payloads=payloads, last=last, first_exception=escaped))
            continue
        want = list(payloads) + [last, ('after', 1)]
        try:
            lb[:k].decode('utf-8')
            midchar = False
        except UnicodeDecodeError:
            midchar = True
        if midchar or k < 18:
            nontriv += 1
        if not (len(got) == len(want) and all(same_value(a[0], b[0]) and same_value(a[1], b[1]) for a, b in zip(got, want))):
            fails.append(dict(bucket='crash:' + ('lost' if len(got) < len(want) else 'duplicate' if len(got) > len(want) else 'order-or-content'),
                              oracle='a record cut at any byte offset is never delivered early; once completed every packet is delivered exactly once, in order',
                              offset=k, midchar=midchar, delivered=[g[0] for g in got], expected=[w[0] for w in want], payloads=payloads, last=last,
                              exception_on_cut=escaped))
        os.unlink(path)
    return fails, len(offsets), nontriv


def corruption(payloads, last, tmpdir, flips):
    from tatsu.packetz.packet import Packet, pack
    from tatsu.packetz.queue import PacketzQueue
    own_clock()
    fails = []
    lines = [pack(Packet(to=t, data=d)) + '\n' for t, d in payloads]
    lastline = pack(Packet(to=last[0], data=last[1])) + '\n'
    after = pack(Packet(to='after', data=1)) + '\n'
    for i, ch in flips:
        body = lastline[:-1]
        if i >= len(body) or body[i] == ch:
            continue
        bad = body[:i] + ch + body[i + 1:] + '\n'
        path = os.path.join(tmpdir, f'c{i}.jsonl')
        with open(path, 'w', encoding='utf-8') as f:
            f.write(''.join(lines) + bad + after)
        rd = quiet(lambda: PacketzQueue(path=path))
        try:
            got = [(p.to, p.data) for p in quiet(lambda: list(rd.receive()))]
        except Exception as e:
            fails.append(dict(bucket=f'corrupt:raises:{type(e).__name__}', oracle='a corrupted line is skipped', flip=(i, ch), payloads=payloads, last=last))
            continue
        want_without = list(payloads) + [('after', 1)]
        ok_without = len(got) == len(want_without) and all(same_value(a[0], b[0]) and same_value(a[1], b[1]) for a, b in zip(got, want_without))
        # a flip may leave the record valid only if checksum and content still agree: the delivered packet must then be the original one
        want_with = list(payloads) + [last, ('after', 1)]
        ok_with = len(got) == len(want_with) and all(same_value(a[0], b[0]) and same_value(a[1], b[1]) for a, b in zip(got, want_with))
        if not (ok_without or ok_with):
            fails.append(dict(bucket='corrupt:delivered-or-lost', oracle='a corrupted line is never delivered as a packet and never disturbs its neighbours',
                              flip=(i, ch), delivered=[(g[0], g[1]) for g in got][:6], payloads=payloads, last=last))
        os.unlink(path)
    return fails


# ------------------------------------------------------------------ shards
def plan(tier):
    n = 6000 if tier == 'quick' else 60000
    nh = 150 if tier == 'quick' else 1500
    return [dict(kind='payloads', n=n) for _ in range(8)] + [dict(kind='histories', n=nh) for _ in range(4)] + [dict(kind='crash', n=20 if tier == 'quick' else 150) for _ in range(4)]


@contextlib.contextmanager
def scratch_cwd():
    """PacketzQueue creates ./.packetz in the current directory: run in a scratch directory"""
    old = os.getcwd()
    d = tempfile.mkdtemp(prefix='vf19cwd_')
    os.chdir(d)
    try:
        yield
    finally:
        os.chdir(old)
        shutil.rmtree(d, ignore_errors=True)


def run_shard(sh, kind, n):
    with scratch_cwd():
        return _run_shard(sh, kind, n)


def _run_shard(sh, kind, n):
    own_clock()
    if kind == 'payloads':
        def body(v):
            to, data = v
            d = check_roundtrip(to, data)
            cls = class_of_payload(to, data)
            nt = any(len(s) >= 3 and (('~' in s) or any(s[i] == s[i + 1] == s[i + 2] for i in range(len(s) - 2)) or '\\' in s or '"' in s) for s in strings_in(data))
            sh.case(('payload', repr(to), repr(data)), nt, ['payload'] + [f'payload:{c}' for c in sorted(cls)], sample=dict(to=to, data=data))
            if d is not None:
                sh.fail(d['bucket'], dict(kind='payload', to=to, data=data), d)
        hyp_run(sh, st.tuples(st.one_of(st.none(), s_str()), json_values()), body, n)
        return
    if kind == 'crash':
        tmp = tempfile.mkdtemp(prefix='vf19_')
        try:
            def body(v):
                rnd, payloads, last = v
                payloads = [(f't{i}', p) for i, p in enumerate(payloads)]
                last = ('last', last)
                fails, noff, nt = crash_points(payloads, last, tmp)
                for k in range(noff):
                    sh.evaluations += 1
                sh.case(('crash', repr(payloads), repr(last)), nt > 0, ['crash-points', 'crash:exhaustive-offsets'], sample=dict(payloads=payloads, last=last, offsets=noff))
                sh.nontrivial.add(h64('crash-nt', repr(last), nt))
                for f in fails[:3]:
                    sh.fail(f['bucket'], dict(kind='crash', payloads=payloads, last=last, offset=f.get('offset')), f)
                line_len = 60
                flips = [(rnd.randrange(line_len), rnd.choice('0a~"}{,:x')) for _ in range(12)]
                for f in corruption(payloads, last, tmp, flips)[:3]:
                    sh.fail(f['bucket'], dict(kind='corrupt', payloads=payloads, last=last, flip=list(f['flip'])), f)
                sh.case(('corrupt', repr(payloads), repr(last), repr(flips)), True, ['corruption'])
            small = st.one_of(s_str(), st.integers(0, 99), st.lists(s_str(), max_size=2), st.dictionaries(st.sampled_from(['k', 'é', '~']), s_str(), max_size=2),
                              st.sampled_from(['é😀é', '日本語テキスト', 'aaaaaa~~', {'k': 'ééé'}]))
            hyp_run(sh, st.tuples(gen.rnds(), st.lists(small, min_size=0, max_size=3), small), body, n)
            sh.exhaustive['every byte offset of the last record, for each generated record'] = True
        finally:
            shutil.rmtree(tmp, ignore_errors=True)
        return
    run_histories(sh, n)


def run_histories(sh, n):
    import hypothesis
    from hypothesis import HealthCheck, Phase, settings
    from hypothesis.stateful import RuleBasedStateMachine, initialize, invariant, precondition, rule, run_state_machine_as_test
    from tatsu.packetz.queue import PacketzQueue
    small = st.one_of(s_str(), st.integers(0, 99), st.lists(s_str(), max_size=2), st.dictionaries(st.sampled_from(['k', 'x~', 'aaaa']), st.integers(0, 5), max_size=2))
    outer = sh

    class Q(RuleBasedStateMachine):
        def __init__(self):
            super().__init__()
            self.dir = tempfile.mkdtemp(prefix='vf19h_')
            self.path = os.path.join(self.dir, 'q.jsonl')
            self.writer = quiet(lambda: PacketzQueue(path=self.path))
            self.readers = [quiet(lambda: PacketzQueue(path=self.path))]
            self.got = [[]]
            self.open_iters = {}
            self.model = []
            self.log = []
            self.interleaved = 0
            self.failed = False

        @rule(to=st.one_of(st.none(), st.sampled_from(['a', 'b~', 'aaaa'])), data=small)
        def send(self, to, data):
            quiet(lambda: self.writer.send(to=to, data=data))
            self.model.append((to, data))
            self.log.append(['send', to, data])
            if self.open_iters:
                self.interleaved += 1

        @rule(i=st.integers(0, 2), k=st.integers(1, 3))
        def receive_some(self, i, k):
            i = i % len(self.readers)
            it = self.open_iters.get(i)
            if it is None:
                it = self.readers[i].receive()
                self.open_iters[i] = it
            self.log.append(['receive', i, k])
            for _ in range(k):
                try:
                    p = quiet(lambda: next(it))
                except StopIteration:
                    self.open_iters.pop(i, None)
                    break
                self.got[i].append((p.to, p.data))

        @precondition(lambda self: bool(self.open_iters))
        @rule(i=st.integers(0, 2))
        def overlap(self, i):
            # a second receive() on a reader whose first iteration is suspended: it reads to the end of the file; the first one goes on later
            keys = sorted(self.open_iters)
            i = keys[i % len(keys)]
            self.log.append(['overlap', i])
            for p in quiet(lambda: list(self.readers[i].receive())):
                self.got[i].append((p.to, p.data))
            self.overlaps = getattr(self, 'overlaps', 0) + 1

        @rule(i=st.integers(0, 2))
        def drain(self, i):
            i = i % len(self.readers)
            it = self.open_iters.pop(i, None)
            self.log.append(['drain', i])
            if it is not None:
                for p in quiet(lambda: list(it)):
                    self.got[i].append((p.to, p.data))
            for p in quiet(lambda: list(self.readers[i].receive())):
                self.got[i].append((p.to, p.data))
            self.check(i, complete=True)

        @precondition(lambda self: len(self.readers) < 3)
        @rule()
        def new_reader(self):
            self.readers.append(quiet(lambda: PacketzQueue(path=self.path)))
            self.got.append([])
            self.log.append(['new_reader'])

        def check(self, i, complete=False):
            got, model = self.got[i], self.model
            ok = len(got) <= len(model) and all(same_value(a[0], b[0]) and same_value(a[1], b[1]) for a, b in zip(got, model))
            if ok and complete:
                ok = len(got) == len(model)
            if not ok and not self.failed:
                self.failed = True
                outer.fail('history:' + ('prefix' if not complete else 'complete'), dict(kind='history', log=self.log),
                           dict(bucket='history:' + ('prefix' if not complete else 'complete'),
                                oracle='every reader receives each completed send exactly once, in send order', reader=i,
                                delivered=[g[0] for g in got][:10], model=[m[0] for m in model][:10], n_delivered=len(got), n_model=len(model)))

        @invariant()
        def prefixes(self):
            for i in range(len(self.readers)):
                self.check(i)

        def teardown(self):
            for it in self.open_iters.values():
                it.close()
            outer.case(('history', repr(self.log)), self.interleaved >= 2, ['history', f'readers:{len(self.readers)}', 'interleaved' if self.interleaved else 'sequential'] + (['overlapping receive() iterations on one reader'] if getattr(self, 'overlaps', 0) else []),
                       sample=dict(history=self.log[:12]))
            shutil.rmtree(self.dir, ignore_errors=True)

    machine = hypothesis.seed(h64(sh.seed, 'C19', sh.index, 'hist'))(Q)
    run_state_machine_as_test(machine, settings=settings(max_examples=n, stateful_step_count=14, deadline=None, database=None, derandomize=False,
                                                         phases=[Phase.generate], suppress_health_check=list(HealthCheck), report_multiple_bugs=False))


def replay_history(log):
    from tatsu.packetz.queue import PacketzQueue
    own_clock()
    d = tempfile.mkdtemp(prefix='vf19r_')
    try:
        path = os.path.join(d, 'q.jsonl')
        writer = quiet(lambda: PacketzQueue(path=path))
        readers = [quiet(lambda: PacketzQueue(path=path))]
        got = [[]]
        iters = {}
        model = []

        def check(i, complete):
            g = got[i]
            ok = len(g) <= len(model) and all(same_value(a[0], b[0]) and same_value(a[1], b[1]) for a, b in zip(g, model))
            if ok and complete:
                ok = len(g) == len(model)
            return ok
        for step in log:
            op = step[0]
            if op == 'send':
                quiet(lambda: writer.send(to=step[1], data=step[2]))
                model.append((step[1], step[2]))
            elif op == 'new_reader':
                readers.append(quiet(lambda: PacketzQueue(path=path)))
                got.append([])
            elif op == 'receive':
                i, k = step[1], step[2]
                it = iters.get(i) or readers[i].receive()
                iters[i] = it
                for _ in range(k):
                    try:
                        p = quiet(lambda: next(it))
                    except StopIteration:
                        iters.pop(i, None)
                        break
                    got[i].append((p.to, p.data))
            elif op == 'overlap':
                i = step[1]
                got[i] += [(p.to, p.data) for p in quiet(lambda: list(readers[i].receive()))]
            elif op == 'drain':
                i = step[1]
                it = iters.pop(i, None)
                if it is not None:
                    got[i] += [(p.to, p.data) for p in quiet(lambda: list(it))]
                got[i] += [(p.to, p.data) for p in quiet(lambda: list(readers[i].receive()))]
                if not check(i, True):
                    return dict(bucket='history:complete', oracle='every reader receives each completed send exactly once, in send order', reader=i,
                                n_delivered=len(got[i]), n_model=len(model))
            for i in range(len(readers)):
                if not check(i, False):
                    return dict(bucket='history:prefix', oracle='deliveries are a prefix of the sends', reader=i)
        return None
    finally:
        shutil.rmtree(d, ignore_errors=True)


def replay(case):
    with scratch_cwd():
        return _replay(case)


def _replay(case):
    own_clock()
    k = case.get('kind')
    if k == 'payload':
        return check_roundtrip(case['to'], case['data'])
    if k == 'history':
        return replay_history(case['log'])
    tmp = tempfile.mkdtemp(prefix='vf19_')
    try:
        payloads = [tuple(p) for p in case['payloads']]
        last = tuple(case['last'])
        if k == 'crash':
            fails, _, _ = crash_points(payloads, last, tmp)
            return fails[0] if fails else None
        fails = corruption(payloads, last, tmp, [tuple(case['flip'])])
        return fails[0] if fails else None
    finally:
        shutil.rmtree(tmp, ignore_errors=True)


def shrink_candidates(case):
    if case.get('kind') == 'payload':
        data, to = case['data'], case['to']
        if to is not None:
            yield dict(case, to=None)
        if isinstance(data, dict):
            for k in list(data):
                yield dict(case, data={a: b for a, b in data.items() if a != k})
                yield dict(case, data=data[k])
        elif isinstance(data, list):
            for i in range(len(data)):
                yield dict(case, data=data[:i] + data[i + 1:])
                yield dict(case, data=data[i])
        elif isinstance(data, str):
            for i in range(len(data)):
                yield dict(case, data=data[:i] + data[i + 1:])
    elif case.get('kind') == 'history':
        log = case['log']
        for i in range(len(log)):
            yield dict(case, log=log[:i] + log[i + 1:])


def _case_values(case):
    k = case.get('kind')
    if k == 'payload':
        return [case.get('to'), case.get('data')]
    if k == 'history':
        return [x for step in case.get('log', []) if step and step[0] == 'send' for x in step[1:]]
    return [x for p in list(case.get('payloads', [])) + [case.get('last', [None, None])] for x in p]


def _f_c14_b(case, detail):
    """fromjson turns strings that start with backslash-e-[ or f{ into Style objects"""
    return any(s.startswith(('\\e[', 'f{')) for v in _case_values(case) for s in strings_in(v))


def _dict_keys(x):
    if isinstance(x, dict):
        for k, v in x.items():
            yield k
            yield from _dict_keys(v)
    elif isinstance(x, list):
        for v in x:
            yield from _dict_keys(v)


def _f_c19_c(case, detail):
    """a payload dict with a __class__ key is taken for a serialised object by fromjson"""
    return any(k == '__class__' for v in _case_values(case) for k in _dict_keys(v))


EXCLUSIONS = {'F-C14-b': _f_c14_b, 'F-C19-c': _f_c19_c}
