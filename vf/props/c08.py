"""C08 — bad input and bad grammars are reported as TatSu errors at valid positions.

(a) texts: a pool of compiled grammars (hand-written ones around the meta expressions, $-> and the repo's calc
    grammar, plus generated C01-style grammars) x Hypothesis unicode texts and mutated sentences, TextLines and Buffer,
    parseinfo on/off, model and generated parser.
(b) grammars: valid grammar texts with 1-4 random edits as compile input.
Oracle (validity): returns, or raises a tatsu.exceptions type; FailedParse carries a position inside the text whose
line/col/source line agree with my splitter; str(e) and e.render() return.
"""
from __future__ import annotations

import os
import sys

from hypothesis import strategies as st

from vf import gen, tu
from vf.core import hyp_run, reset_tatsu_state, watchdog, CaseTimeout
from vf.gast import grammar_text
from vf.props.c12 import split as split_lines

PROPERTY = 'C08'
RULE = ('(a) ~25 fixed grammars (meta expressions @int @uint @float @bool @name in sequences/closures/choices, $->, the repository\'s calc '
        'grammar, keywords, left recursion) and generated C01-style grammars x texts from Hypothesis over a weighted alphabet (digits, signs, '
        '._eE, letters, space, CR, LF, tab, control characters, non-BMP, combining marks; includes the empty text) and grammar-derived '
        'sentences with 1-3 character mutations; parsed as str (TextLines) and through Buffer, parseinfo on/off, model and generated parser. '
        '(b) valid grammar texts (printer output over the full language, the repository\'s grammar files) with 1-4 random insertions, '
        'deletions, transpositions and replacements biased to syntax characters, given to tatsu.compile. Oracle: the call returns or raises '
        'a tatsu.exceptions type (FailedParse family for input); no other exception type, no RecursionError for non-left-recursive grammars, '
        'no hang (10 s alarm on <= 60-character inputs); for a FailedParse: 0 <= pos <= len(text), info.line/col/text agree with my splitter '
        'at min(pos, len-1), str(e) and e.render() return. plus coverage-guided campaigns (atheris/libFuzzer, in-process, oracle inside the target, seeded and empty corpora, fixed -runs and -seed): '
        'bytes -> (grammar, route, parseinfo, text) and bytes -> grammar text. non-trivial = the parse got past offset 0, or the mutated grammar is within 3 edits '
        'of a valid one; (c) generated regular expressions (well formed and not, often matching the empty string; inline flags, look-behinds, huge repeats, back-references) placed in @@whitespace (as /re/ and as string), @@comments, @@eol_comments, @@namechars and rule patterns, compiled and, when accepted, run on short texts through all three routes; distinct = distinct (grammar id, text) / distinct mutated grammar text')
ASSUMPTIONS = [
    'exception classes defined in tatsu.exceptions (TatSuException subclasses) are "TatSu\'s own exception types"',
    'a hang is: no result within 10 s on an input of at most 60 characters, confirmed by the fresh-process replay',
]
BUDGET_S = {'quick': 150, 'thorough': 1500}

FIXED = [
    ('int-seq', "start: {@int}+ $ ;"),
    ('uint-seq', "start: {@uint}* $ ;"),
    ('float-seq', "start: ','.{@float}+ $ ;"),
    ('bool-seq', "start: {@bool} $ ;"),
    ('name-seq', "start: {@name}+ $ ;"),
    ('meta-mix', "start: {v+=(@float | @int | @bool | @name | /[-+*]/)}+ $ ;"),
    ('meta-named', "start: a=@int ':' b=@uint ':' c=@float ':' d=@bool ':' e=@name ;"),
    ('meta-opt', "start: [@int] [@bool] 'x' [@float] ;"),
    ('meta-choice', "start: (@uint 'u' | @int 'i' | @float 'f' | @bool 'b' | @name 'n')* $ ;"),
    ('meta-look', "start: {&@int @float | !@bool @name}* $ ;"),
    ('eol-lines', "start: {line}+ $ ;\n\nline: /[a-z]+/ $-> ;"),
    ('eol-mix', "start: {'a' $-> | 'b'}* $ ;"),
    ('eol-only', "start: {$->} 'x' ;"),
    ('kw', "@@keyword :: (if then)\n\nstart: {stmt}+ $ ;\n\nstmt: 'if' id 'then' id | id ;\n\n@name\nid: /[a-z]+/ ;"),
    ('lr', "start: e $ ;\n\ne: e '+' t | e '-' t | t ;\n\nt: t '*' f | f ;\n\nf: '(' e ')' | @int | @name ;"),
    ('skipto', "start: {->('a' | @int)}* $ ;"),
    ('const', "start: x=@int y=`{x}` z=`7` $ ;"),
    # constants that interpolate text taken from the input (which may itself look like an interpolation)
    ('const-text', "start: y=/.*/ c=`{y}` ;"),
    # constants that use a value which may be missing (an optional that did not match is None) or of another type
    ('const-attr', "start: name=[/[a-z]+/] n=[@int] up=`{name.upper()}` k=`{n + 1}` s=`{name[0]}` $ ;"),
    ('const-multiline', "start: @:'b' (```two\n        lines```) ;\n\nother: x='b' c=```\n    a {x}\n      b``` ;"),
    ('const-text2', "@@whitespace :: ''\n\nstart: y=/[^;]*/ ';' c=`<{y}>` d=`{y}{y}` $ ;"),
    ('cut', "start: {'(' ~ @int ')' | @name}* $ ;"),
    ('ws', "@@whitespace :: /[ \\t]+/\n\nstart: {@int $->}* $ ;"),
    ('comments', "@@comments :: ?\"\\(\\*(?:.|\\n)*?\\*\\)\"\n@@eol_comments :: /#[^\\n]*/\n\nstart: {@name | @int}* $ ;"),
    ('nows', "@@whitespace :: None\n\nstart: {@int | ',' | @bool}* $ ;"),
    ('ignorecase', "@@ignorecase :: True\n\nstart: {'select' | 'from' | @name | @int}* $ ;"),
    ('namechars', "@@namechars :: '-$'\n\nstart: {'let' @name | @int}* $ ;"),
    ('dot', "start: {!'x' /./}* 'x' $ ;"),
    ('join', "start: ','%{@int}+ ';'.{@name} $ ;"),
    # right/centre recursion through closures, joins and gathers inside optionals (the shapes Optional.optimized() looks into)
    ('nested-list', "start: value $ ;\n\nvalue: '[' [','.{value}] ']' | @int ;"),
    ('nested-block', "start: [{item}] $ ;\n\nitem: '(' [{item}] ')' | @name ;"),
    ('nested-expr', "start: expr $ ;\n\nexpr: term [';'%{expr}] ;\n\nterm: @int | '(' [expr] ')' ;"),
    # closures, joins and gathers whose element (and separator) can match the empty string: the no-progress guard must end them
    ('nullable-closure', "start: {['a']} 'b' $ ;"),
    ('nullable-join', "start: /,?/%{['a']} 'b' $ ;"),
    ('nullable-gather', "start: ([',']).{['a']}+ 'b' $ ;"),
    ('nullable-ws-join', "start: /\\s*/.{/a*/}+ 'b' $ ;"),
    ('nullable-rules', "start: sep%{item} 'b' $ ;\n\nsep: [','] ;\n\nitem: {'a'} ;"),
]

# a few valid sentences per fixed grammar; texts are mutations of these half of the time
SEEDS = {
    'int-seq': ['1 -2 +3', '10'], 'uint-seq': ['1 2 3', '1_000 2'], 'float-seq': ['1.5, -2e3, 3', '0.5'], 'bool-seq': ['true False', 'false'],
    'name-seq': ['a b1 _c', 'abc'], 'meta-mix': ['1.5 2 true x -', 'a + 1'], 'meta-named': ['1:2:3.0:true:x'], 'meta-opt': ['1 true x 2.0', 'x'],
    'meta-choice': ['1u -1i 1.5f trueb xn'], 'meta-look': ['1 x 2.5 y'], 'eol-lines': ['ab\ncd\n', 'ab'], 'eol-mix': ['a\nb a\n', 'b'], 'eol-only': ['\n\nx', 'x'],
    'kw': ['if a then b c', 'x y'], 'lr': ['(2*1)+3', '1+2*3-4', '((1))', 'a*(b+1)'], 'skipto': ['xx a yy 1', 'a'], 'const': ['5'], 'const-text': ['{y} ', 'x{y}', '{y!r}', 'abc', '{1+1}', '"{y}"'], 'const-multiline': ['b', 'b b'], 'const-attr': ['', '  ', 'abc', 'abc 3', '3'], 'const-text2': ['{y};', 'a{y}b;', 'ab;', '{y}{y};'], 'cut': ['(1) x (2)', 'x'],
    'ws': ['1\n2\n', '1 \n'], 'comments': ['a (* c *) 1 # e\nb', 'a'], 'nows': ['1,2,true', '1'], 'ignorecase': ['SELECT a From b 1', 'x'],
    'namechars': ['let a-b 1 let $x', '1'], 'dot': ['abx', 'x'], 'join': ['1,2,3 a;b', '1'],
    'nested-list': ['[1,[2,3],[]]', '[]', '[[1]'], 'nested-block': ['a (b (c)) d', '()'], 'nested-expr': ['1;2;(3;4)', '(1'],
    'nullable-closure': ['a a b', 'b'], 'nullable-join': ['a,a b', 'b'], 'nullable-gather': ['a , a b', 'b'], 'nullable-ws-join': ['aa a b', 'b'], 'nullable-rules': ['a a, a b', 'b'],
}

ALPHA = st.sampled_from(list('0123456789') * 2 + list('+-._eE') * 2 + list('abtruefalsTFxyz') + [' ', ' ', '\n', '\r', '\r\n', '\t', ',', ':', ';', '(', ')', '*', '#', '{', '}', '{y}', '{x}', '!r', "'", '"']
                        + ['true', 'false', 'True', 'False', 'if', 'then', 'let', '1_0', '1.', '.5', '1e', '1e+', '-', '+-', '__', '_1', '1_', '\x00', '\x0b', '\x0c', '\x1c', '\x85',
                           ' ', ' ', 'é', '漢', '🙂', '́', '​', '٣', '²', 'ǅ'])


def tatsu_exc(e):
    import tatsu.exceptions as X
    return isinstance(e, X.TatSuException)


def frames_in_tatsu(e):
    import traceback
    tb = traceback.extract_tb(e.__traceback__)
    for fr in reversed(tb):
        if '/tatsu/' in fr.filename:
            return f'{fr.filename.split("/tatsu/")[-1]}:{fr.name}'
    return '?'


def check_failed_parse(e, text):
    """position / line info / rendering of a FailedParse"""
    n = len(text)
    try:
        pos = e.pos
    except Exception as x:
        return dict(bucket=f'pos-raises:{type(x).__name__}', oracle='FailedParse.pos is available', observed=repr(x))
    if not isinstance(pos, int) or pos < 0 or pos > n:
        return dict(bucket='pos-out-of-text', oracle='0 <= e.pos <= len(text)', observed=pos, length=n)
    try:
        s = str(e)
        r = e.render()
        if not isinstance(s, str) or not isinstance(r, str):
            return dict(bucket='render-type', oracle='str(e) and e.render() return text', observed=(type(s).__name__, type(r).__name__))
    except Exception as x:
        return dict(bucket=f'render-raises:{type(x).__name__}', oracle='the message of a failure always renders', observed=repr(x)[:200], where=frames_in_tatsu(x))
    info = getattr(e, 'info', None)
    if info is None:
        return dict(bucket='no-info', oracle='a FailedParse carries line information', observed=None)
    if n == 0:
        return None
    # line breaks other than LF/CR/CRLF (that str.splitlines honours) are outside the statement: skip the line check for such texts
    if any(c in text for c in '\x0b\x0c\x1c\x1d\x1e\x85  '):
        return None
    p = min(pos, n - 1)
    lines = split_lines(text)
    for ln, (s0, l) in enumerate(lines):
        if s0 <= p < s0 + len(l):
            want = (ln, p - s0, l.rstrip('\r\n'))
            got = (info.line, info.col, info.text.rstrip('\r\n'))
            if got != want:
                return dict(bucket='lineinfo', oracle='e.info line/col/source line agree with the reported position (clamped to the last character)',
                            expected=want, observed=got, pos=pos)
            if info.start + info.col != p:
                return dict(bucket='lineinfo-start', oracle='info.start + info.col is the (clamped) position', expected=p, observed=info.start + info.col)
            break
    return None


def run_parse(parse, text, lr):
    """returns (detail|None, info)"""
    from tatsu.exceptions import FailedParse
    info = {}
    old = sys.getrecursionlimit()
    sys.setrecursionlimit(1500)
    try:
        with watchdog(10):
            try:
                parse(text)
                info['outcome'] = 'ok'
                info['pos'] = len(text)
                return None, info
            except FailedParse as e:
                info['outcome'] = 'fail'
                info['pos'] = getattr(e, 'pos', 0) if isinstance(getattr(e, 'pos', 0), int) else 0
                return check_failed_parse(e, text), info
            except RecursionError as e:
                info['outcome'] = 'recursion'
                if len(text) <= 60:
                    return dict(bucket='RecursionError', oracle='no text makes a parse recurse without bound', where=frames_in_tatsu(e)), info
                return None, info
            except Exception as e:
                info['outcome'] = 'exc'
                if tatsu_exc(e):
                    return None, info
                return dict(bucket=f'parse-raises:{type(e).__name__}@{frames_in_tatsu(e)}', oracle='parsing any text returns or raises a TatSu exception',
                            observed=f'{type(e).__name__}: {str(e)[:200]}'), info
    except CaseTimeout:
        info['outcome'] = 'timeout'
        if len(text) <= 60:
            return dict(bucket='hang', oracle='no text makes a parse hang', observed='no result within 10 s'), info
        return None, info
    finally:
        sys.setrecursionlimit(old)


_pool = {}


def get_parsers(gid, gtext):
    """returns dict route -> callable(text, parseinfo) for a pool grammar (compiled once per process)"""
    if gid in _pool:
        return _pool[gid]
    import tatsu
    from tatsu.input.buffer import Buffer
    model = tatsu.compile(gtext, name='P' + ''.join(c for c in gid if c.isalnum()))
    routes = {
        'model-str': lambda t, pi: model.parse(t, parseinfo=pi),
        'model-buffer': lambda t, pi: model.parse(Buffer(t, config=model.config), parseinfo=pi),
    }
    try:
        src = tatsu.to_python_sourcecode(gtext, name='P' + ''.join(c for c in gid if c.isalnum()))
        mod = tu.load_generated(src, 'vf08gen')
        cls = tu.find_parser_class(mod)
        routes['generated'] = lambda t, pi: cls().parse(t, parseinfo=pi)
    except Exception:
        pass
    _pool[gid] = routes
    return routes


def check_text(gid, gtext, route, parseinfo, text):
    try:
        routes = get_parsers(gid, gtext)
    except Exception as e:
        return dict(bucket=f'pool-compile:{type(e).__name__}', oracle='pool grammar compiles', observed=str(e)[:200], grammar=gtext), {}
    if route not in routes:
        return None, {'outcome': 'no-route'}
    lr = gid == 'lr'
    return run_parse(lambda t: routes[route](t, parseinfo), text, lr)


# ------------------------------------------------------------------ (b) grammar mutation
SYNTAX = list("{}[]()|~&!$@:;=+*%.,<>/?'\"`^#\\-_ \n") + ['::', '@@', '->', '$->', '@:', '+=', '@+:', '(?:', '{}', '()', '!()', "''", '//', '`', '```', '\\x', '\\u', '\\N{', '(*', '*)', '/*']


def mutate(rnd, text, nedits):
    s = text
    for _ in range(nedits):
        if not s:
            s = rnd.choice(SYNTAX)
            continue
        i = rnd.randrange(len(s) + 1)
        op = rnd.choice(['ins', 'ins', 'del', 'swap', 'rep', 'dup'])
        if op == 'ins':
            s = s[:i] + rnd.choice(SYNTAX) + s[i:]
        elif op == 'del' and i < len(s):
            j = min(len(s), i + rnd.choice([1, 1, 2, 3]))
            s = s[:i] + s[j:]
        elif op == 'swap' and i + 1 < len(s):
            s = s[:i] + s[i + 1] + s[i] + s[i + 2:]
        elif op == 'rep' and i < len(s):
            s = s[:i] + rnd.choice(SYNTAX) + s[i + 1:]
        elif op == 'dup' and i < len(s):
            j = min(len(s), i + rnd.randint(1, 6))
            s = s[:j] + s[i:j] + s[j:]
    return s


TEXTCHARS = list('0123456789+-*/().,;: \n\r\t_eEtrufalsx')


def mutate_text(rnd, text, nedits):
    s = text
    for _ in range(nedits):
        i = rnd.randrange(len(s) + 1)
        op = rnd.choice(['ins', 'del', 'rep', 'swap'])
        if op == 'ins' or not s:
            s = s[:i] + rnd.choice(TEXTCHARS) + s[i:]
        elif op == 'del' and i < len(s):
            s = s[:i] + s[i + 1:]
        elif op == 'rep' and i < len(s):
            s = s[:i] + rnd.choice(TEXTCHARS) + s[i + 1:]
        elif op == 'swap' and i + 1 < len(s):
            s = s[:i] + s[i + 1] + s[i] + s[i + 2:]
    return s


def check_compile(text):
    import tatsu
    info = {}
    old = sys.getrecursionlimit()
    sys.setrecursionlimit(1500)
    try:
        with watchdog(20):
            try:
                m = tatsu.compile(text, name='M08')
                info['outcome'] = 'ok'
                return None, info
            except Exception as e:
                info['outcome'] = 'fail'
                if tatsu_exc(e):
                    from tatsu.exceptions import FailedParse
                    if isinstance(e, FailedParse):
                        d = check_failed_parse(e, text)
                        if d:
                            d['bucket'] = 'compile:' + d['bucket']
                        return d, info
                    try:
                        str(e)
                    except Exception as x:
                        return dict(bucket=f'compile:str-raises:{type(x).__name__}', oracle='the message renders', observed=repr(x)), info
                    return None, info
                if isinstance(e, RecursionError):
                    return dict(bucket='compile:RecursionError', oracle='compiling any text terminates without unbounded recursion', where=frames_in_tatsu(e)), info
                return dict(bucket=f'compile-raises:{type(e).__name__}@{frames_in_tatsu(e)}', oracle='compiling any grammar text returns or raises a TatSu parse/grammar error',
                            observed=f'{type(e).__name__}: {str(e)[:200]}'), info
    except CaseTimeout:
        info['outcome'] = 'timeout'
        return dict(bucket='compile:hang', oracle='compiling any text terminates', observed='no result within 20 s'), info
    finally:
        sys.setrecursionlimit(old)


def valid_grammars():
    out = [(gid, g) for gid, g in FIXED]
    import os
    repo = os.environ.get('VF_REPO', '/repo')
    for fn in ('grammar/calc.ebnf', 'grammar/calc_model.tatsu', 'grammar/pretty.tatsu'):
        try:
            out.append((fn, open(os.path.join(repo, fn)).read()))
        except OSError:
            pass
    return out


def plan(tier):
    n = 1500 if tier == 'quick' else 20000
    shards = [dict(kind='texts', n=n) for _ in range(10)] + [dict(kind='grammars', n=max(40, n // 3)) for _ in range(6)]
    shards += [dict(kind='regexes', n=max(60, n // 4)) for _ in range(4)]
    # coverage-guided campaigns (atheris/libFuzzer) with the same oracle inside the target
    runs = 4000 if tier == 'quick' else 400000
    shards += [dict(kind='atheris', n=runs, mode='texts', job=0)]
    if tier == 'thorough':
        shards += [dict(kind='atheris', n=runs, mode='texts', job=1), dict(kind='atheris', n=runs // 20, mode='grammars', job=2),
                   dict(kind='atheris', n=runs // 20, mode='grammars', job=3)]
    return shards


def run_shard(sh, kind, n, **kw):
    if kind == 'texts':
        return run_texts(sh, n)
    if kind == 'atheris':
        return run_atheris(sh, n, **kw)
    if kind == 'regexes':
        return run_regexes(sh, n)
    return run_grammars(sh, n)


def run_atheris(sh, runs, mode, job):
    """one libFuzzer campaign in a subprocess; findings are re-checked here before they are recorded"""
    import json
    import shutil
    import subprocess
    import tempfile
    import time
    try:
        import atheris  # noqa: F401
    except Exception as e:
        sh.note(f'atheris not importable ({type(e).__name__}): coverage-guided tier skipped')
        return
    tmp = tempfile.mkdtemp(prefix='vf08fz_')
    try:
        corpus = os.path.join(tmp, 'corpus')
        out = os.path.join(tmp, 'out')
        os.makedirs(corpus)
        if job % 2 == 0:   # even jobs start from seeds, odd jobs from the empty corpus
            if mode == 'texts':
                k = 0
                for gi, (gid, _) in enumerate(FIXED):
                    for sd in SEEDS.get(gid, []):
                        for rb in (0, 3):
                            with open(os.path.join(corpus, f's{k}'), 'wb') as f:
                                f.write(bytes([gi, rb]) + sd.encode('utf-8'))
                            k += 1
            else:
                for k, (gid, g) in enumerate(valid_grammars()):
                    if len(g) < 400:
                        with open(os.path.join(corpus, f'g{k}'), 'wb') as f:
                            f.write(g.encode('utf-8'))
        remaining = max(20, int(sh.deadline - time.time()) - 15)
        cmd = [sys.executable, '-W', 'ignore', '-m', 'vf.fuzz08', mode, out, f'-runs={runs}', f'-seed={1 + (sh.seed * 31 + job) % 2**31}',
               '-max_len=90' if mode == 'texts' else '-max_len=400', f'-max_total_time={remaining}', '-timeout=25', '-rss_limit_mb=4096', corpus]
        t0 = time.time()
        try:
            r = subprocess.run(cmd, stdout=subprocess.PIPE, stderr=subprocess.STDOUT, text=True, timeout=remaining + 60)
            tail = r.stdout[-600:]
        except subprocess.TimeoutExpired:
            tail = 'campaign killed by the harness timeout'
        stats = {}
        try:
            stats = json.load(open(os.path.join(out, 'stats.json')))
        except Exception:
            pass
        execs = int(stats.get('execs', 0))
        sh.evaluations += execs
        sh.classes[f'atheris:{mode}:execs'] += execs
        sh.nontrivial.add(hash(('atheris', mode, job, execs)))
        sh.note(f'atheris {mode} job {job}: {execs} executions in {time.time() - t0:.0f}s')
        if not execs:
            sh.note('atheris produced no executions: ' + tail.replace('\n', ' | ')[-300:])
        for fn in sorted(os.listdir(out)) if os.path.isdir(out) else []:
            if not fn.startswith('finding-'):
                continue
            data = json.load(open(os.path.join(out, fn)))
            case, detail = data['case'], data['detail']
            d = replay(case)          # re-check without instrumentation
            if d is not None:
                sh.fail('atheris:' + d['bucket'], case, d)
    finally:
        shutil.rmtree(tmp, ignore_errors=True)


def run_texts(sh, n):
    texts = st.lists(ALPHA, min_size=0, max_size=14).map(''.join)

    def body(v):
        rnd, text = v
        r = rnd.random()
        if r < 0.75:
            gid, gtext = rnd.choice(FIXED)
            if rnd.random() < 0.01:
                # a digit run longer than int() converts (sys.get_int_max_str_digits); texts are unbounded in the statement
                text = rnd.choice(['', '-', '1 ']) + rnd.choice('123456789') * rnd.choice([4301, 5000]) + rnd.choice(['', ' x', '.5'])
            if rnd.random() < 0.5 and gid in SEEDS:
                seed = rnd.choice(SEEDS[gid])
                k = rnd.random()
                if k < 0.3:
                    text = seed[:rnd.randint(0, len(seed))]                      # truncation
                elif k < 0.6:
                    text = mutate_text(rnd, seed, rnd.randint(1, 3))
                elif k < 0.8:
                    text = seed + text
                else:
                    i = rnd.randint(0, len(seed))
                    text = seed[:i] + text + seed[i:]
        else:
            rules = gen.gen_rules(rnd, gen.GenCfg(cut=rnd.random() < 0.3))
            gtext = grammar_text(rules)
            gid = 'gen:' + gtext
            lx = gen.derive(rnd, dict(rules), rules[0][1])
            s = gen.layout(rnd, lx, rnd.choice(['base', 'tight', 'varied']))
            if rnd.random() < 0.7:
                s = mutate(rnd, s, rnd.randint(1, 3)) if rnd.random() < 0.5 else s + text
            text = s
            if len(_pool) > 40:
                for k in [k for k in _pool if k.startswith('gen:')]:
                    del _pool[k]
        route = rnd.choice(['model-str', 'model-str', 'model-buffer', 'generated'])
        pi = rnd.random() < 0.4
        d, info = check_text(gid, gtext, route, pi, text)
        nt = info.get('pos', 0) > 0
        sh.case((gid[:200], text, route, pi), nt, [f'route:{route}', 'parseinfo' if pi else 'no-parseinfo', f'outcome:{info.get("outcome")}',
                                                 'grammar:' + (gid if not gid.startswith('gen:') else 'generated')],
                sample=dict(grammar=gid if not gid.startswith('gen:') else gtext, text=text, route=route, parseinfo=pi, outcome=info.get('outcome')))
        if d is not None:
            sh.fail(d['bucket'], dict(kind='text', gid=gid[:40], grammar=gtext, route=route, parseinfo=pi, text=text), d)
    hyp_run(sh, st.tuples(gen.rnds(), texts), body, n)


def run_grammars(sh, n):
    base = valid_grammars()

    def body(rnd):
        reset_tatsu_state()
        r = rnd.random()
        if r < 0.5:
            gid, g = rnd.choice(base)
        else:
            rules = gen.gen_rules(rnd, gen.GenCfg(cut=True))
            g = grammar_text(rules)
            gid = 'generated'
        k = rnd.randint(1, 4)
        text = mutate(rnd, g, k)
        d, info = check_compile(text)
        sh.case(text, k <= 3, ['mutated-grammar', f'edits:{k}', f'compile:{info.get("outcome")}', 'base:' + (gid if gid != 'generated' else 'generated')],
                sample=dict(mutated=text[:300], outcome=info.get('outcome')))
        if d is not None:
            sh.fail(d['bucket'], dict(kind='grammar', text=text), d)
    hyp_run(sh, gen.rnds(), body, n, label='grammars')


# ------------------------------------------------------------------ (c) regular expressions in directives and patterns
RX_ATOMS = ['a', 'b', '1', ' ', '\\s', '\\d', '\\w', '.', '[ab]', '[^a]', '[ \\t]', '#', "'", '"', "\\\\'", '\\\\"', '\\n', '\\b', '^', '$', '\\\\', "\\'", '\\"', '\\/', '-', '[z-a]', '\\1', '\\N{foo}', '\\u12', '\\x4', '(?P=n)', '[', ']', '(', ')', '\\']
RX_QUANT = ['*', '+', '?', '*?', '+?', '{2}', '{0,1}', '{1,}', '{,2}', '{99999999999}', '{2,1}', '**', '{']
RX_FLAGS = ['(?i)', '(?m)', '(?s)', '(?x)', '(?a)', '(?u)', '(?L)', '(?a)(?u)', '(?ms)', '(?-i:a)', '(?z)']
RX_GROUPS = ['(%s)', '(?:%s)', '(?P<n>%s)', '(?=%s)', '(?!%s)', '(?<=%s)', '(?<!%s)', '(?#%s)', '(%s', '%s)', '(?(1)%s|b)', '(?>%s)']


def gen_regex(rnd, depth=0):
    """regular-expression text: mostly well formed, sometimes not; often able to match the empty string"""
    n = rnd.choice([1, 1, 2, 2, 3])
    parts = []
    for _ in range(n):
        r = rnd.random()
        if r < 0.5 or depth >= 2:
            a = rnd.choice(RX_ATOMS[:20]) if rnd.random() < 0.8 else rnd.choice(RX_ATOMS)
        elif r < 0.8:
            a = rnd.choice(RX_GROUPS[:5] if rnd.random() < 0.8 else RX_GROUPS) % gen_regex(rnd, depth + 1)
        else:
            a = gen_regex(rnd, depth + 1) + '|' + gen_regex(rnd, depth + 1)
            if rnd.random() < 0.7:
                a = '(?:' + a + ')'
        if rnd.random() < 0.45:
            a += rnd.choice(RX_QUANT[:8]) if rnd.random() < 0.85 else rnd.choice(RX_QUANT)
        parts.append(a)
    out = ''.join(parts)
    if depth == 0 and rnd.random() < 0.2:
        out = rnd.choice(RX_FLAGS[:5] if rnd.random() < 0.7 else RX_FLAGS) + out
    return out


RX_SITES = [
    ('ws-regex', "@@whitespace :: /%s/\n\nstart: {'a' | 'b' | @int}* $ ;"),
    ('ws-string', "@@whitespace :: '%s'\n\nstart: {'a' | 'b' | @int}* $ ;"),
    ('comments', "@@comments :: /%s/\n\nstart: {'a' | 'b' | @int}* $ ;"),
    ('eol-comments', "@@eol_comments :: /%s/\n\nstart: {'a' $-> | 'b' | @int}* $ ;"),
    ('both-comments', "@@comments :: /%s/\n@@eol_comments :: /#.*?$/\n\nstart: {'a' | 'b' | @name}* $ ;"),
    ('pattern', "start: {/%s/ | 'b'}* $ ;"),
    ('pattern-q', "start: {?\"%s\" 'a'}* $ ;"),
    ('pattern-skipto', "start: ->/%s/ 'a' $ ;"),
    ('pattern-join', "start: /%s/.{'a'} $ ;"),
    ('namechars', "@@namechars :: '%s'\n\nstart: {'a' | 'ab' | @name}* $ ;"),
]
RX_TEXT = st.lists(st.sampled_from(list('aab1 #\n') + ['ab', ' a', '\t', '#x\n', 'a1', '\r\n']), max_size=7).map(''.join)


def run_regexes(sh, n):
    def body(v):
        rnd, texts = v
        reset_tatsu_state()
        site, tmpl = rnd.choice(RX_SITES)
        rx = gen_regex(rnd)
        g = tmpl % rx
        d, info = check_compile(g)
        compiled = info.get('outcome') == 'ok'
        sh.case(('rx', g), True, ['regex-site:' + site, f'regex-compile:{info.get("outcome")}'], sample=dict(grammar=g, outcome=info.get('outcome')))
        if d is not None:
            sh.fail('regex:' + d['bucket'], dict(kind='grammar', text=g), d)
            return
        if not compiled:
            return
        for text in texts:
            route = rnd.choice(['model-str', 'model-buffer', 'generated'])
            pi = rnd.random() < 0.3
            d, info = check_text('rx:' + g, g, route, pi, text)
            sh.case(('rx', g, text, route, pi), True, ['regex-site:' + site, f'regex-parse:{info.get("outcome")}', f'route:{route}'],
                    sample=dict(grammar=g, text=text, route=route, outcome=info.get('outcome')))
            if d is not None:
                sh.fail('regex:' + d['bucket'], dict(kind='text', gid='rx', grammar=g, route=route, parseinfo=pi, text=text), d)
        for k in [k for k in _pool if k.startswith('rx:')]:
            del _pool[k]
    hyp_run(sh, st.tuples(gen.rnds(), st.lists(RX_TEXT, min_size=2, max_size=4)), body, n, label='regexes')


def replay(case):
    if case.get('kind') == 'grammar':
        d, _ = check_compile(case['text'])
        return d
    d, _ = check_text('replay:' + case['grammar'], case['grammar'], case['route'], case['parseinfo'], case['text'])
    return d


def shrink_candidates(case):
    if case.get('kind') == 'grammar':
        text = case['text']
        # drop whole lines first, then characters
        lines = text.split('\n')
        for i in range(len(lines)):
            yield dict(case, text='\n'.join(lines[:i] + lines[i + 1:]))
        step = max(1, len(text) // 40)
        for i in range(0, len(text), step):
            yield dict(case, text=text[:i] + text[i + step:])
        if len(text) < 200:
            for i in range(len(text)):
                yield dict(case, text=text[:i] + text[i + 1:])
        return
    text = case['text']
    for i in range(len(text)):
        yield dict(case, text=text[:i] + text[i + 1:])
    if case.get('parseinfo'):
        yield dict(case, parseinfo=False)
    if case.get('route') != 'model-str':
        yield dict(case, route='model-str')


EXCLUSIONS = {}
