"""C03 — left-recursive rules parse, terminate and associate to the left.

Oracles: (a) precedence-climbing spec evaluator (vf.lrgen.spec_eval); (b) RefPEG with seed growing;
TatSu is judged only where (a) and (b) agree (or (b) alone for shapes (a) does not express);
(c) model == generated parser; (d) termination (watchdog + recursion limit).
"""
from __future__ import annotations

from vf import gen, lrgen, tu
from vf.core import hyp_run, reset_tatsu_state, watchdog, CaseTimeout
from vf.refpeg import Ref

PROPERTY = 'C03'
HISTORY_CONFIRM = True   # a failure that needs the process history is confirmed by re-running its shard from the seed
RULE = ('specification-first generation: a precedence table (1-3 levels; left levels with shape direct / aliased before / aliased after '
        '(mutual) / named / optional-prefixed / split (each operator alternative in its own rule, optional cut after the operator, a postfix operator that starts like the binary one) / twin (two directly left-recursive rules that also call each other: no rule on all cycles) / mutual (two rules that call each other in left position, each with its own operator, over a lower left-recursive level); right-recursive and unary-prefix levels; optional parenthesised atom) printed as a grammar; '
        'inputs: generated operator/operand strings with and without spaces plus near misses (trailing / doubled operator, unbalanced '
        'parenthesis), and in the enumeration shard all lexeme strings up to a bound for fixed family grammars; parsed from every level rule '
        'and alias rule. non-trivial = the input has >= 2 operators of one left-recursive level or a right-recursive tail after a '
        'left-recursive head; distinct = distinct (grammar, start, input)')
ASSUMPTIONS = [
    'the expected result is the one both of my oracles agree on; where they disagree the case is logged as oracle_disagreement and skipped',
    'general (unlayered) mutual recursion is only covered by termination (C16), because the statement does not define its leader',
    'termination is observed as: within 10 s and a recursion limit of 1500 on inputs of <= 30 characters',
]
BUDGET_S = {'quick': 150, 'thorough': 1500}

_gcount = [0]


def genparser(gtext, sh_index=0):
    import tatsu
    _gcount[0] += 1
    name = f'Vf03x{sh_index}x{_gcount[0]}'
    src = tatsu.to_python_sourcecode(gtext, name=name)
    mod = tu.load_generated(src, 'vf03gen')
    cls = tu.find_parser_class(mod)
    return mod, cls


_instances = {}


def parse_gen(cls, text, start):
    """one parser object per generated class serves every input (a reused object must behave like a fresh one);
    failures that need the history are confirmed by re-running the shard (HISTORY_CONFIRM)"""
    from tatsu.exceptions import FailedParse, ParseException
    inst = _instances.get(cls)
    if inst is None:
        if len(_instances) > 8:
            _instances.clear()
        inst = _instances[cls] = cls()
    try:
        a = inst.parse(text, start=start)
    except FailedParse as e:
        return ('fail', type(e).__name__, e.pos)
    except ParseException as e:
        return ('fail', type(e).__name__, -1)
    except RecursionError:
        return ('exc', 'RecursionError', '')
    except Exception as e:
        return ('exc', type(e).__name__, str(e)[:200])
    try:
        return ('ok', len(text) - len(a['rest']), tu.canon(a['v']))
    except Exception:
        return ('exc', 'wrapper', repr(a)[:200])


def nontrivial(spec, text):
    for i, lv in enumerate(spec['levels']):
        if lv['kind'] == 'left' and sum(text.count(op) for op in lv['ops']) >= 2:
            return True
    kinds = [lv['kind'] for lv in spec['levels']]
    if 'left' in kinds and 'right' in kinds:
        return any(op in text for lv in spec['levels'] if lv['kind'] == 'right' for op in lv['ops']) and \
            any(op in text for lv in spec['levels'] if lv['kind'] == 'left' for op in lv['ops'])
    return False


def check(spec, start, text, model=None, gcls=None, with_gen=True):
    """returns (detail|None, info)"""
    rules = lrgen.level_rules(spec)
    gtext = tu.wrapped_text(lrgen.spec_text(spec), start)
    info = {}
    if model is None:
        try:
            model = tu.compile_grammar(gtext)
        except Exception as e:
            return dict(bucket=f'compile:{type(e).__name__}', oracle='grammar compiles', observed=str(e)[:300], grammar=gtext), info
    ref = Ref(rules, text)
    r = ref.parse(start)
    if r[0] == 'budget':
        info['ref'] = 'budget'
        return None, info
    rr = ('fail',) if r[0] == 'fail' else ('ok', r[1], tu.canon(r[2]))
    se = lrgen.spec_eval(spec, text, start)
    if se is not None:
        se = ('fail',) if se[0] == 'fail' else ('ok', se[1], tu.canon(se[2]))
        if se != rr:
            info['oracle_disagreement'] = dict(spec_eval=se, refpeg=rr)
            return None, info
        info['two_oracles'] = True
    info['ref'] = rr[0]
    try:
        with watchdog(10):
            t = tu.parse_wrapped(model, text)
    except CaseTimeout:
        t = ('exc', 'no-result', 'no result within 10 s')
    if t[0] == 'exc':
        return dict(bucket=f'model-exc:{t[1]}', oracle='parse terminates with a result or a FailedParse', observed=t, expected=rr), info
    if t[0] != rr[0]:
        return dict(bucket='accept', oracle='accept/reject as grown from the seed (both oracles)', expected=rr, observed=t), info
    if t[0] == 'ok' and t[1] != rr[1]:
        return dict(bucket='length', oracle='longest prefix admitted by seed growing', expected=rr, observed=t), info
    if t[0] == 'ok' and t[2] != rr[2]:
        return dict(bucket='tree', oracle='left-associative tree (right-nested on right-recursive levels)', expected=rr, observed=t), info
    if with_gen:
        own = None
        try:
            if gcls is None:
                own, gcls = genparser(gtext)
            with watchdog(10):
                g = parse_gen(gcls, text, 'VF_WRAP')
        except CaseTimeout:
            g = ('exc', 'no-result', 'no result within 10 s')
        except Exception as e:
            g = ('exc', 'codegen:' + type(e).__name__, str(e)[:200])
        finally:
            if own is not None:
                tu.unload(own)
        if g[0] == 'exc':
            return dict(bucket=f'gen-exc:{g[1]}', oracle='generated parser terminates with a result or a FailedParse', observed=g, model=t), info
        if g[0] != t[0] or (g[0] == 'ok' and g != t):
            return dict(bucket='model-vs-generated', oracle='the generated parser agrees with the model', model=t, generated=g), info
    return None, info


# fixed family grammars for the enumeration shard
FAMILY = [
    dict(levels=[dict(kind='left', ops=['+'], rule='e0', shape='direct')], paren=False, stmt=None),
    dict(levels=[dict(kind='left', ops=['+', '-'], rule='e0', shape='direct'), dict(kind='left', ops=['*'], rule='e1', shape='direct')], paren=True, stmt=None),
    dict(levels=[dict(kind='left', ops=['+'], rule='e0', shape='alias_before')], paren=False, stmt=None),
    dict(levels=[dict(kind='left', ops=['+'], rule='e0', shape='alias_after')], paren=False, stmt=None),
    dict(levels=[dict(kind='left', ops=['+'], rule='e0', shape='named')], paren=False, stmt=None),
    dict(levels=[dict(kind='left', ops=['+'], rule='e0', shape='optpref', pref='-')], paren=False, stmt=None),
    dict(levels=[dict(kind='left', ops=['+'], rule='e0', shape='direct'), dict(kind='right', ops=['^'], rule='e1')], paren=False, stmt=None),
    dict(levels=[dict(kind='left', ops=['+'], rule='e0', shape='direct'), dict(kind='unary', ops=['-'], rule='e1')], paren=False, stmt=None),
    dict(levels=[dict(kind='left', ops=['+'], rule='e0', shape='alias_before'), dict(kind='left', ops=['*'], rule='e1', shape='alias_after')], paren=True, stmt=None),
    dict(levels=[dict(kind='left', ops=['+'], rule='e0', shape='alias_before', alias='a0')], paren=False, stmt=None),
    dict(levels=[dict(kind='left', ops=['+'], rule='e0', shape='alias_after', alias='a0')], paren=False, stmt=None),
    dict(levels=[dict(kind='left', ops=['+', '-'], rule='e0', shape='split', cuts=[True, False], postfix='++')], paren=False, stmt=None),
    dict(levels=[dict(kind='left', ops=['+'], rule='e0', shape='twin')], paren=False, stmt=None),
    # a level whose prefix-operator alternative comes before its recursive ones, under an ordinary level (growth inside growth)
    dict(levels=[dict(kind='left', ops=['+', '-'], rule='e0', shape='direct'), dict(kind='left', ops=['*'], rule='e1', shape='prefalt', pref='!')], paren=True, stmt=None),
    # rule names that a generated parser has to spell differently (Python keywords and builtins)
    dict(levels=[dict(kind='left', ops=['+'], rule='or', shape='direct'), dict(kind='left', ops=['*'], rule='and', shape='direct'), dict(kind='unary', ops=['-'], rule='not')], paren=False, stmt=None),
    dict(levels=[dict(kind='left', ops=['+'], rule='type', shape='named'), dict(kind='left', ops=['*'], rule='list', shape='split', cuts=[False], postfix=None)], paren=True, stmt=None),
    dict(levels=[dict(kind='left', ops=['+'], rule='e0', shape='mutual', partner_op='<<'), dict(kind='left', ops=['*'], rule='e1', shape='direct')], paren=False, stmt=None),
]


def plan(tier):
    n = 60 if tier == 'quick' else 800
    shards = [dict(kind='random', n=n) for _ in range(12)]
    maxlex = 5 if tier == 'quick' else 7
    shards += [dict(kind='family', index=i, maxlex=maxlex) for i in range(len(FAMILY))]
    return shards


def starts_of(spec):
    out = []
    for lv in spec['levels']:
        out.append(lv['rule'])
        if lv.get('shape') in ('alias_before', 'alias_after'):
            out.append(lv.get('alias', lv['rule'] + 'x'))
        if lv.get('shape') == 'twin':
            out.append(lv['rule'] + 'w')
    return out


def run_shard(sh, kind, **kw):
    if kind == 'family':
        return run_family(sh, **kw)
    return run_random(sh, **kw)


def run_random(sh, n):
    def body(rnd):
        reset_tatsu_state()
        spec = lrgen.gen_spec(rnd, pynames=True)
        start = rnd.choice(starts_of(spec)) if rnd.random() < 0.4 else spec['levels'][0]['rule']
        gtext = tu.wrapped_text(lrgen.spec_text(spec), start)
        try:
            model = tu.compile_grammar(gtext)
            mod, gcls = genparser(gtext, sh.index)
        except Exception as e:
            sh.fail(f'compile:{type(e).__name__}', dict(spec=spec, start=start, input=''), dict(bucket=f'compile:{type(e).__name__}', observed=str(e)[:300], grammar=gtext))
            return
        try:
            for _ in range(24):
                text = lrgen.gen_input(rnd, spec, rnd.choice([3, 5, 7, 9]))
                one(sh, spec, start, text, model, gcls, gtext)
        finally:
            tu.unload(mod)
    hyp_run(sh, gen.rnds(), body, n)


def one(sh, spec, start, text, model, gcls, gtext, with_gen=True):
    d, info = check(spec, start, text, model, gcls, with_gen)
    cls = [f'shape:{lv.get("shape", lv["kind"])}' for lv in spec['levels']]
    cls.append(f'ref:{info.get("ref")}')
    if info.get('two_oracles'):
        cls.append('judged-by-two-oracles')
    if 'oracle_disagreement' in info:
        sh.flag('oracle_disagreement')
        sh.note('oracle_disagreement')
    sh.case((gtext, start, text), nontrivial(spec, text) and info.get('ref') in ('ok', 'fail'), cls,
            sample=dict(grammar=lrgen.spec_text(spec), start=start, input=text, ref=info.get('ref')))
    if d is not None:
        sh.fail(d['bucket'], dict(spec=spec, start=start, input=text), d)


def run_family(sh, index, maxlex):
    reset_tatsu_state()
    spec = FAMILY[index]
    complete = True
    for start in starts_of(spec):
        gtext = tu.wrapped_text(lrgen.spec_text(spec), start)
        model = tu.compile_grammar(gtext)
        mod, gcls = genparser(gtext, 100 + index)
        try:
            for k, text in enumerate(lrgen.all_inputs(spec, maxlex)):
                if k % 256 == 0 and sh.out_of_budget():
                    complete = False
                    break
                one(sh, spec, start, text, model, gcls, gtext, with_gen=(k % 7 == 0))
        finally:
            tu.unload(mod)
    sh.exhaustive[f'family grammar {index}: all lexeme strings up to {maxlex} lexemes, every start rule'] = complete


def replay(case):
    d, _ = check(case['spec'], case['start'], case['input'])
    return d


def shrink_candidates(case):
    text = case['input']
    for i in range(len(text)):
        yield dict(case, input=text[:i] + text[i + 1:])
    spec = case['spec']
    if len(spec['levels']) > 1:
        for i in range(len(spec['levels'])):
            lv = spec['levels'][:i] + spec['levels'][i + 1:]
            names = [l['rule'] for l in lv] + [l.get('alias', l['rule'] + 'x') for l in lv]
            if case['start'] in names:
                yield dict(case, spec=dict(spec, levels=lv))
    if spec['paren']:
        yield dict(case, spec=dict(spec, paren=False))


# ------------------------------------------------------------------ known findings
def _f_c03_a(case, detail):
    """cycle entered through a rule other than the marked leader: a level whose alias sorts before the level
    rule (so the alias is the leader), parsed from a rule other than that alias, on an input that uses one of that
    level's operators; TatSu returns less than the grown seed (or FailedLeftRecursion)"""
    if detail.get('bucket') not in ('length', 'accept', 'tree'):
        return False
    for lv in case['spec']['levels']:
        alias = lv.get('alias')
        if lv.get('shape', '').startswith('alias') and alias and alias < lv['rule']:
            entered_by_non_leader = case['start'] != alias or (case['spec']['paren'] and '(' in case['input'])
            if entered_by_non_leader and any(op in case['input'] for op in lv['ops']):
                return True
    return False


def _f_c03_b(case, detail):
    """two left-recursive rules that are both leaders and call each other in left position ('twin' level): the inner leader's
    result, computed while the outer seed was still failing/short, stays cached while the outer seed grows"""
    if detail.get('bucket') not in ('length', 'accept', 'tree'):
        return False
    return any(lv.get('shape') == 'twin' for lv in case['spec']['levels']) and any(op in case['input'] for op in ('.', '::', '[]'))


EXCLUSIONS = {'F-C03-a': _f_c03_a, 'F-C03-b': _f_c03_b}
