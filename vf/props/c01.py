"""C01 — grammar models parse exactly as the documented PEG semantics prescribe.

Oracle: RefPEG (vf.refpeg), an independent evaluator written from the docs.
Compared: accept/reject, consumed length (through a wrapper rule), canonical AST.
"""
from __future__ import annotations

from hypothesis import strategies as st

from vf import gen, tu
from vf.core import hyp_run, reset_tatsu_state, watchdog, CaseTimeout
from vf.gast import grammar_text, node_types, shrink_rules, tup
from vf.refpeg import Ref

PROPERTY = 'C01'
RULE = ('Hypothesis-driven construction of 1-3 rule grammars over the core expression language (no left recursion: calls in '
        'left position only to later rules; right recursion behind a terminal allowed) x 6 inputs each (sentences derived from the '
        'grammar, near misses, token soup), parsed from a random rule through a wrapper rule that exposes the consumed length; plus an '
        'exhaustive enumeration of small expression trees over {a, b, ","} x all strings up to a length bound. '
        'non-trivial = accepted, or rejected after >= 1 terminal match, on a grammar with a choice/closure/optional/name/override/call; '
        'distinct = distinct (grammar text, start, input)')
ASSUMPTIONS = [
    'RefPEG is my reading of docs/syntax.rst and docs/ast.rst; where the docs are silent it raises a U-flag and the AST (U1,U3-U6,U9) '
    'or the whole comparison (U2,U7) is not judged',
    'termination is observed up to a 200k-step reference budget and a 10 s watchdog',
]
BUDGET_S = {'quick': 300, 'thorough': 1200}
ACCEPT_FLAGS = {'U2', 'U7', 'U11', 'U12', 'LR'}


def plan(tier):
    n = 250 if tier == 'quick' else 5000
    shards = [dict(kind='random', n=n) for _ in range(16)]
    try:
        from vf import enum01  # noqa: F401
        shards += [dict(kind='enum', index=i, nshards=16, tier=tier) for i in range(16)]
    except ImportError:
        pass
    return shards


def compare(rules, start, text, model=None, cfg=None):
    """returns (detail|None, info) — info has ref outcome, flags, nontrivial ingredients"""
    rules = [(n, tup(x)) for n, x in rules]
    cfg = cfg or {}
    if model is None:
        gtext = tu.wrapped_text(grammar_text(rules), start)
        try:
            model = tu.compile_grammar(gtext)
        except Exception as e:
            return dict(bucket=f'compile:{type(e).__name__}', oracle='a printed valid grammar must compile',
                        observed=str(e)[:300], grammar=gtext), {}
    ref = Ref(rules, text, **cfg)
    r = ref.parse(start)
    info = dict(ref=r[0], flags=sorted(ref.flags), terminals=ref.matched_terminals)
    if r[0] == 'budget':
        return None, info
    try:
        with watchdog(10):
            t = tu.parse_wrapped(model, text)
    except CaseTimeout:
        t = ('exc', 'no-result', 'no result within 10 s')
    rr = ('fail',) if r[0] == 'fail' else ('ok', r[1], tu.canon(r[2]))
    fl = set(ref.flags)
    if 'U7' in fl and not ref.u7_lookahead:
        # a cut directly in a plain group: the docs scope it to the group, the engine lets it through.  Where both readings
        # give the same outcome for this input the difference does not matter and the case is compared after all.
        ref2 = Ref(rules, text, group_scopes_cut=True, **cfg)
        r2 = ref2.parse(start)
        rr2 = ('fail',) if r2[0] == 'fail' else ('ok', r2[1], tu.canon(r2[2])) if r2[0] == 'ok' else ('budget',)
        if set(ref2.flags) == fl and rr2 == rr:
            fl.discard('U7')
            info['u7_resolved'] = 'value'
        elif set(ref2.flags) == fl and rr2[:2] == rr[:2]:
            # same acceptance and consumed length under both readings: only the value stays uncompared
            fl.discard('U7')
            fl.add('U7v')
            info['u7_resolved'] = 'accept'
    if t[0] == 'exc':
        return dict(bucket=f'exc:{t[1]}', oracle='parse returns a result or a FailedParse', observed=t, reference=rr), info
    if fl & ACCEPT_FLAGS:
        return None, info
    if rr[0] != t[0]:
        return dict(bucket='accept', oracle='accept/reject agrees with RefPEG', expected=rr, observed=t), info
    if rr[0] == 'ok' and rr[1] != t[1]:
        return dict(bucket='length', oracle='consumed length agrees with RefPEG', expected=rr, observed=t), info
    if rr[0] == 'ok' and not fl and rr[2] != t[2]:
        return dict(bucket='ast', oracle='AST agrees with RefPEG', expected=rr, observed=t), info
    if rr[0] == 'ok' and fl == {'U13'} and isinstance(rr[2], dict) and isinstance(t[2], dict) and set(rr[2]) != set(t[2]):
        # the value bound by a name around another name is undocumented (U13), the keys are not:
        # every name defined in the rule is present in its AST
        return dict(bucket='ast-keys', oracle='every name defined in a rule is a key of its AST (None when not bound)', expected=sorted(rr[2]), observed=sorted(t[2])), info
    return None, info


GRAMMAR_FEATURES = {'alt', 'star', 'plus', 'join', 'opt', 'named', 'namedl', 'ovr', 'ovrl', 'call'}


def run_random(sh, n, cfg=None):
    gcfg = cfg or gen.GenCfg()

    def body(rnd):
        reset_tatsu_state()
        rules = gen.gen_rules(rnd, gcfg)
        start = rnd.choice([nm for nm, _ in rules]) if rnd.random() < 0.3 else rules[0][0]
        gtext = tu.wrapped_text(grammar_text(rules), start)
        try:
            model = tu.compile_grammar(gtext)
        except Exception as e:
            sh.case((gtext,), False, ['compile-error'])
            sh.fail(f'compile:{type(e).__name__}', dict(kind='ref', rules=rules, start=start, input=''),
                    dict(bucket=f'compile:{type(e).__name__}', observed=str(e)[:300], grammar=gtext))
            return
        types = set()
        for _, x in rules:
            types |= node_types(x)
        for k in gen.ctx_hist(rules):
            sh.classes['ctx:' + k] += 1
        feat = bool(types & GRAMMAR_FEATURES)
        for text in gen.gen_inputs(rnd, rules, start, 6):
            d, info = compare(rules, start, text, model)
            nt = feat and (info.get('ref') == 'ok' or info.get('terminals', 0) > 0)
            cls = [f'ref:{info.get("ref")}'] + [f'flag:{f}' for f in info.get('flags', [])]
            if info.get('ref') in ('ok', 'fail') and not info.get('flags'):
                cls.append('fully-compared')
            sh.case((gtext, text), nt, cls, sample=dict(grammar=grammar_text(rules), start=start, input=text, ref=info.get('ref')))
            for f in info.get('flags', []):
                sh.flag(f)
            if info.get('ref') == 'budget':
                sh.flag('inconclusive-budget')
            if d is not None:
                sh.fail(d['bucket'], dict(kind='ref', rules=rules, start=start, input=text), d)
    hyp_run(sh, gen.rnds(), body, n)


# ------------------------------------------------------------------ rule includes and based rules, taken as their documented expansions
def expansion_case(rnd, rules):
    """adds rules written with `>rule` and `name < base` (also chained: c < b, d < c; an include of a based rule) to a generated grammar.
    returns (rule dicts for the grammar text, reference rules with the documented expansion written out, start rule name)
    docs/syntax.rst: `extended < base: exp2` has the same effect as `extended: exp1 exp2`; `>rule` stands for the rule's expression"""
    base_name, base_exp = rnd.choice(rules)
    own = lambda: ('seq', tuple(('tok', rnd.choice(['a', 'b', ',', '+'])) for _ in range(rnd.randint(1, 2))))

    def seq(*parts):
        items = []
        for p_ in parts:
            items.extend(p_[1] if p_[0] == 'seq' else [p_])
        return ('seq', tuple(items))
    o1, o2, o3 = own(), own(), own()
    dicts = [dict(name=n, exp=x) for n, x in rules]
    ref = list(rules)
    shape = rnd.choice(['based', 'chain', 'chain3', 'include', 'include-of-based', 'based-on-including',
                        'override', 'override-then-based', 'override-then-include', 'override-twice'])
    top = 'xb1'
    if shape.startswith('override'):
        # docs/syntax.rst "Rule Overrides": a rule may be redefined with @override; the redefinition is the rule from then on (for the
        # calls written before it too: calls go by name).  What is based on / includes the rule AFTER the redefinition sees the new body.
        names = [n for n, _ in rules]
        i = names.index(base_name)
        cfg = gen.GenCfg()
        new_exp = gen.gen_exp(rnd, cfg, rnd.randint(1, cfg.depth), names[i + 1:], names)
        dicts.append(dict(name=base_name, exp=new_exp, decorators=['override']))
        if shape == 'override-twice':
            new_exp = gen.gen_exp(rnd, cfg, rnd.randint(1, cfg.depth), names[i + 1:], names)
            dicts.append(dict(name=base_name, exp=new_exp, decorators=['override']))
        ref[i] = (base_name, new_exp)
        base_exp = new_exp
        top = rnd.choice(names[:i + 1])     # the redefined rule itself or a rule that may call it
        if shape == 'override-then-based':
            dicts.append(dict(name='xb1', exp=o1, base=base_name))
            ref.append(('xb1', seq(base_exp, o1)))
            top = 'xb1'
        if shape == 'override-then-include':
            dicts.append(dict(name='xi', exp=seq(o1, ('inc', base_name), o2)))
            ref.append(('xi', seq(o1, base_exp, o2)))
            top = 'xi'
        return dicts, ref, top, shape
    if shape in ('based', 'chain', 'chain3', 'include-of-based'):
        dicts.append(dict(name='xb1', exp=o1, base=base_name))
        ref.append(('xb1', seq(base_exp, o1)))
    if shape in ('chain', 'chain3'):
        dicts.append(dict(name='xb2', exp=o2, base='xb1'))
        ref.append(('xb2', seq(base_exp, o1, o2)))
        top = 'xb2'
    if shape == 'chain3':
        dicts.append(dict(name='xb3', exp=o3, base='xb2'))
        ref.append(('xb3', seq(base_exp, o1, o2, o3)))
        top = 'xb3'
    if shape == 'include':
        dicts.append(dict(name='xi', exp=seq(o1, ('inc', base_name), o2)))
        ref.append(('xi', seq(o1, base_exp, o2)))
        top = 'xi'
    if shape == 'include-of-based':
        dicts.append(dict(name='xi', exp=seq(o2, ('inc', 'xb1'))))
        ref.append(('xi', seq(o2, base_exp, o1)))
        top = 'xi'
    if shape == 'based-on-including':
        dicts.append(dict(name='xi', exp=seq(('inc', base_name), o1)))
        ref.append(('xi', seq(base_exp, o1)))
        dicts.append(dict(name='xb1', exp=o2, base='xi'))
        ref.append(('xb1', seq(base_exp, o1, o2)))
        top = 'xb1'
    return dicts, ref, top, shape


def compare_expansion(dicts, ref_rules, start, text, model=None):
    from vf.gast import grammar_text as gt
    if model is None:
        gtext = tu.wrapped_text(gt([dict(d, exp=tup(d['exp'])) for d in dicts]), start)
        try:
            model = tu.compile_grammar(gtext)
        except Exception as e:
            return dict(bucket=f'compile:{type(e).__name__}', oracle='a printed valid grammar must compile', observed=str(e)[:300], grammar=gtext), {}
    return compare(ref_rules, start, text, model)


def run_expansions(sh, n):
    gcfg = gen.GenCfg()

    def body(rnd):
        reset_tatsu_state()
        rules = gen.gen_rules(rnd, gcfg)
        dicts, ref_rules, start, shape = expansion_case(rnd, rules)
        gtext = tu.wrapped_text(grammar_text(dicts), start)
        try:
            model = tu.compile_grammar(gtext)
        except Exception as e:
            sh.fail(f'compile:{type(e).__name__}', dict(kind='expand', dicts=dicts, rules=ref_rules, start=start, input=''),
                    dict(bucket=f'compile:{type(e).__name__}', observed=str(e)[:300], grammar=gtext))
            return
        for text in gen.gen_inputs(rnd, ref_rules, start, 5):
            d, info = compare(ref_rules, start, text, model)
            cls = ['expansion:' + shape, f'ref:{info.get("ref")}'] + [f'flag:{f}' for f in info.get('flags', [])]
            sh.case((gtext, text), info.get('ref') == 'ok' or info.get('terminals', 0) > 0, cls, sample=dict(grammar=grammar_text(dicts), start=start, input=text, ref=info.get('ref')))
            for f in info.get('flags', []):
                sh.flag(f)
            if d is not None:
                sh.fail('expansion:' + d['bucket'], dict(kind='expand', dicts=dicts, rules=ref_rules, start=start, input=text), d)
    hyp_run(sh, gen.rnds(), body, n, label='expansions')


def run_shard(sh, kind, **kw):
    if kind == 'random':
        run_expansions(sh, max(20, kw.get('n', 100) // 5))
        return run_random(sh, **kw)
    from vf import enum01
    return enum01.run_shard(sh, compare=compare, **kw)


def replay(case):
    if case.get('kind') == 'enum':
        from vf import enum01
        return enum01.replay(case, compare)
    rules = [(n, tup(x)) for n, x in case['rules']]
    if case.get('kind') == 'expand':
        d, _ = compare_expansion(case['dicts'], rules, case['start'], case['input'])
        if d is not None:
            d = dict(d, bucket='expansion:' + d['bucket'])
        return d
    d, _ = compare(rules, case['start'], case['input'], cfg=case.get('cfg'))
    return d


def shrink_candidates(case):
    rules = [(n, tup(x)) for n, x in case['rules']]
    text = case['input']
    for i in range(len(text)):
        yield dict(case, input=text[:i] + text[i + 1:])
    if case.get('kind') == 'expand':
        return      # (the grammar and its written-out expansion would have to shrink together)
    for r2 in shrink_rules(rules):
        names = [n for n, _ in r2]
        if case['start'] in names:
            yield dict(case, rules=r2)
    if case['start'] != rules[0][0]:
        yield dict(case, start=rules[0][0])


# ------------------------------------------------------------------ known findings (narrow exclusions)
def _flat(x):
    if isinstance(x, list):
        out = []
        for v in x:
            f = _flat(v)
            out.extend(f if isinstance(v, list) else [f])
        return out
    if isinstance(x, dict):
        return {k: _flat(v) for k, v in x.items()}
    return x


def _f_c01_a(case, detail):
    """an AST difference that disappears when nested lists are flattened, on a grammar in which a rule
    with an override (@: / @+:) is called from another rule"""
    if detail.get('bucket') not in ('ast', 'enum-ast', 'expansion:ast') or case.get('kind') not in ('ref', 'enum', 'expand'):
        return False
    from vf.gast import calls_in
    rules = [(n, tup(x)) for n, x in case['rules']]
    called = set()
    for _, x in rules:
        called |= set(calls_in(x))
    if not any(n in called and node_types(x) & {'ovr', 'ovrl'} for n, x in rules):
        return False
    return _flat(detail['expected'][2]) == _flat(detail['observed'][2])


EXCLUSIONS = {'F-C01-a': _f_c01_a}
