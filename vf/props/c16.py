"""C16 — left recursion is detected exactly, and never causes unbounded recursion.

Domain: rule graphs whose bodies are choices of `[prefix] head [tail]` (exhaustive for small shapes,
sampled beyond).  Oracle: my own left-call graph / nullability / cycle analysis on GAST.
"""
from __future__ import annotations

import itertools
import sys

from vf import gen, tu
from vf.core import hyp_run, reset_tatsu_state, watchdog, CaseTimeout
from vf.gast import grammar_text, tup

PROPERTY = 'C16'
RULE = ('rule graphs with 1-3 rules (r0..r2) whose bodies are choices of <= 2 alternatives `[prefix] head [tail]`, prefix in {none, [\'t\'], '
        '{\'t\'}, [r], {r}} (and, in the positive-closure tier and half of the sampled graphs, {[\'t\']}+ {\'t\'}+ {[r]}+ {r}+), head in {call to any rule, \'t\'}, tail in {none, \'u\'}: exhaustive for 1 rule (420 graphs) and for 2 rules with '
        'single-alternative bodies (1764 graphs); Hypothesis-sampled for 2 rules x 2 alternatives, 3 rules, and random graphs of 4-6 rules; '
        'each graph: compile with @@left_recursion :: False (GrammarError iff my analysis finds a left-call cycle), compile with left '
        'recursion on (is_lrec / is_memo flags against my cycle membership), and a battery of all strings over {t,u} up to 3 lexemes parsed '
        'from every rule (no RecursionError at limit 1500, no 10 s alarm). Graphs with a call to a nullable rule inside a left-position '
        'prefix are outside the statement and skipped (counted). non-trivial = the graph has a left-call cycle or a nullable prefix before a '
        'call; distinct = distinct grammar text')
ASSUMPTIONS = [
    'my analysis: left-call edges = calls reachable at the start of an alternative through optionals, closures and nullable elements; a cycle = a rule that reaches itself over >= 1 such edge',
    'termination is observed as no RecursionError at recursion limit 1500 and no 10 s alarm on inputs of <= 5 characters',
]
BUDGET_S = {'quick': 150, 'thorough': 1500}


# ------------------------------------------------------------------ graph construction
def alternatives(nrules, plus=False):
    names = [f'r{i}' for i in range(nrules)]
    prefixes = [None, ('opt', ('tok', 't')), ('star', ('tok', 't'))]
    if plus:
        # positive closures: over a body that can match empty (then the closure can too) and over one that cannot
        prefixes += [('plus', ('opt', ('tok', 't'))), ('plus', ('tok', 't'))]
    for r in names:
        prefixes += [('opt', ('call', r)), ('star', ('call', r))]
        if plus:
            prefixes += [('plus', ('opt', ('call', r))), ('plus', ('call', r))]
    heads = [('call', r) for r in names] + [('tok', 't')]
    tails = [None, ('tok', 'u')]
    out = []
    for p, h, t in itertools.product(prefixes, heads, tails):
        items = tuple(x for x in (p, h, t) if x is not None)
        out.append(items[0] if len(items) == 1 else ('seq', items))
    return out


def bodies(nrules, maxalts, plus=False):
    alts = alternatives(nrules, plus)
    out = list(alts)
    if maxalts >= 2:
        out += [('alt', (a, b)) for a in alts for b in alts]
    return out


# ------------------------------------------------------------------ my analysis
def analyse(rules):
    """returns dict(cycle=bool, oncycle=set(names), edges=..., nullable_call_prefix=bool, nullable_prefix_before_call=bool)"""
    rmap = dict(rules)
    nullable = {n: False for n in rmap}

    def isnull(e):
        k = e[0]
        if k == 'tok':
            return False
        if k in ('opt', 'star'):
            return True
        if k == 'plus':
            return isnull(e[1])
        if k == 'call':
            return nullable[e[1]]
        if k == 'seq':
            return all(isnull(x) for x in e[1])
        if k == 'alt':
            return any(isnull(x) for x in e[1])
        raise ValueError(k)
    changed = True
    while changed:
        changed = False
        for n, x in rmap.items():
            v = isnull(x)
            if v != nullable[n]:
                nullable[n] = v
                changed = True
    flags = dict(nullable_call_prefix=False, nullable_prefix_before_call=False)

    def leftcalls(e, out):
        """collects calls in left position; returns True if e can match empty (so the scan continues)"""
        k = e[0]
        if k == 'tok':
            return False
        if k == 'call':
            out.add(e[1])
            return nullable[e[1]]
        if k in ('opt', 'star'):
            leftcalls(e[1], out)
            return True
        if k == 'plus':
            return leftcalls(e[1], out)
        if k == 'alt':
            res = False
            for x in e[1]:
                res |= leftcalls(x, out)
            return res
        if k == 'seq':
            for i, x in enumerate(e[1]):
                cont = leftcalls(x, out)
                if x[0] == 'call' and nullable[x[1]] and i + 1 < len(e[1]):
                    flags['nullable_call_prefix'] = True
                if x[0] in ('opt', 'star', 'plus') and i + 1 < len(e[1]):
                    inner = x[1]
                    while inner[0] in ('opt', 'star', 'plus'):
                        inner = inner[1]
                    if inner[0] == 'call' and nullable[inner[1]]:
                        flags['nullable_call_prefix'] = True
                    if e[1][i + 1][0] == 'call' and isnull(x):
                        flags['nullable_prefix_before_call'] = True
                if not cont:
                    return False
            return True
        raise ValueError(k)
    edges = {}
    for n, x in rmap.items():
        s = set()
        leftcalls(x, s)
        edges[n] = s
    # reachability
    oncycle = set()
    for n in rmap:
        seen = set()
        stack = list(edges[n])
        while stack:
            m = stack.pop()
            if m in seen:
                continue
            seen.add(m)
            stack.extend(edges.get(m, ()))
        if n in seen:
            oncycle.add(n)
    return dict(cycle=bool(oncycle), oncycle=oncycle, edges=edges, nullable=nullable, **flags)


BATTERY = [''] + [' '.join(t) for k in (1, 2, 3) for t in itertools.product('tu', repeat=k)]


def to_model(rules, left_recursion=True):
    """build the grammar model directly from tatsu.peg constructors (0.6 ms instead of 50 ms through the text);
    only the node kinds of this domain"""
    from tatsu import peg as g

    def conv(e):
        k = e[0]
        if k == 'tok':
            return g.Token(token=e[1])
        if k == 'call':
            return g.Call(name=e[1])
        if k == 'opt':
            return g.Optional(exp=conv(e[1]))
        if k == 'plus':
            return g.PositiveClosure(exp=conv(e[1]))
        if k == 'star':
            return g.Closure(exp=conv(e[1]))
        if k == 'seq':
            return g.Sequence(sequence=[conv(x) for x in e[1]])
        if k == 'alt':
            return g.Choice(options=[g.Option(exp=conv(x)) for x in e[1]])
        raise ValueError(k)
    directives = {} if left_recursion else {'left_recursion': False}
    return g.Grammar('D16', [g.Rule(name=n, exp=conv(x)) for n, x in rules], directives=directives)


def check_direct(rules):
    """detection + flags through directly built models (no battery); returns (detail|None, info)"""
    from tatsu.exceptions import GrammarError
    an = analyse(rules)
    info = dict(cycle=an['cycle'], skipped=False, nullable_prefix=an['nullable_prefix_before_call'], ncycle=len(an['oncycle']))
    if an['nullable_call_prefix']:
        info['skipped'] = True
        return None, info
    try:
        to_model(rules, False)
        raised = False
    except GrammarError:
        raised = True
    except Exception as e:
        return dict(bucket=f'direct:compile-off:{type(e).__name__}', oracle='model construction returns or raises GrammarError', observed=str(e)[:200]), info
    if raised != an['cycle']:
        return dict(bucket='direct:detection', oracle='GrammarError iff some rule reaches itself through left-position calls', expected=an['cycle'], observed=raised,
                    edges={k: sorted(v) for k, v in an['edges'].items()}), info
    try:
        m = to_model(rules, True)
    except Exception as e:
        return dict(bucket=f'direct:compile-on:{type(e).__name__}', oracle='model construction with left recursion on', observed=str(e)[:200]), info
    fl = {r.name: (r.is_lrec, r.is_memo) for r in m.rules}
    for n, (lrec, memo) in fl.items():
        if n not in an['oncycle'] and (lrec or not memo):
            return dict(bucket='direct:flags-off-cycle', oracle='a rule on no left-call cycle is memoized and not left recursive', rule=n,
                        observed=dict(is_lrec=lrec, is_memo=memo), oncycle=sorted(an['oncycle'])), info
    leaders = {n for n, (lrec, _) in fl.items() if lrec}
    rest = {n: {x for x in es if x not in leaders} for n, es in an['edges'].items() if n not in leaders}
    for n in rest:
        seen = set()
        stack = list(rest[n])
        while stack:
            x = stack.pop()
            if x in seen:
                continue
            seen.add(x)
            stack.extend(rest.get(x, ()))
        if n in seen:
            return dict(bucket='direct:unguarded-cycle', oracle='every left-call cycle contains a rule marked left recursive', rule=n, leaders=sorted(leaders)), info
    return None, info


def check(rules, battery=True):
    """returns (detail|None, info)"""
    rules = [(n, tup(x)) for n, x in rules]
    gtext = grammar_text(rules)
    an = analyse(rules)
    info = dict(cycle=an['cycle'], skipped=False, nullable_prefix=an['nullable_prefix_before_call'], ncycle=len(an['oncycle']))
    if an['nullable_call_prefix']:
        info['skipped'] = True
        return None, info
    from tatsu.exceptions import FailedParse, GrammarError, ParseException
    # 1. detection with left recursion off
    try:
        tu.compile_grammar('@@left_recursion :: False\n\n' + gtext)
        raised = False
    except GrammarError:
        raised = True
    except Exception as e:
        return dict(bucket=f'compile-off:{type(e).__name__}', oracle='compiling with @@left_recursion :: False returns or raises GrammarError',
                    observed=str(e)[:300]), info
    if raised != an['cycle']:
        return dict(bucket='detection', oracle='GrammarError iff some rule reaches itself through left-position calls',
                    expected=an['cycle'], observed=raised, edges={k: sorted(v) for k, v in an['edges'].items()}), info
    # 2. flags with left recursion on
    try:
        model = tu.compile_grammar(gtext)
    except Exception as e:
        return dict(bucket=f'compile-on:{type(e).__name__}', oracle='the grammar compiles with left recursion on', observed=str(e)[:300]), info
    fl = {r.name: (r.is_lrec, r.is_memo) for r in model.rules}
    for n, (lrec, memo) in fl.items():
        if n not in an['oncycle'] and (lrec or not memo):
            return dict(bucket='flags-off-cycle', oracle='a rule on no left-call cycle is memoized and not left recursive',
                        rule=n, observed=dict(is_lrec=lrec, is_memo=memo), oncycle=sorted(an['oncycle'])), info
    # every cycle has a leader: removing the is_lrec rules must leave no cycle
    leaders = {n for n, (lrec, _) in fl.items() if lrec}
    rest = {n: {m for m in es if m not in leaders} for n, es in an['edges'].items() if n not in leaders}
    for n in rest:
        seen = set()
        stack = list(rest[n])
        while stack:
            m = stack.pop()
            if m in seen:
                continue
            seen.add(m)
            stack.extend(rest.get(m, ()))
        if n in seen:
            info['unguarded_cycle'] = True
            if not battery:
                return dict(bucket='unguarded-cycle', oracle='every left-call cycle contains a rule marked left recursive',
                            rule=n, leaders=sorted(leaders)), info
    # 3. battery
    if battery:
        old = sys.getrecursionlimit()
        sys.setrecursionlimit(1500)
        try:
            for start, _ in rules:
                for text in BATTERY:
                    try:
                        with watchdog(10):
                            model.parse(text, start=start)
                    except (FailedParse, ParseException):
                        pass
                    except RecursionError:
                        return dict(bucket='RecursionError', oracle='no grammar and input make the parser recurse without bound',
                                    start=start, input=text, flags=fl, edges={k: sorted(v) for k, v in an['edges'].items()}), info
                    except CaseTimeout:
                        return dict(bucket='no-result', oracle='parse terminates', start=start, input=text), info
                    except Exception as e:
                        return dict(bucket=f'parse:{type(e).__name__}', oracle='parse returns or raises FailedParse', start=start, input=text,
                                    observed=str(e)[:200]), info
        finally:
            sys.setrecursionlimit(old)
    return None, info


def classes_of(rules, info):
    cls = ['cycle' if info.get('cycle') else 'no-cycle', f'rules:{len(rules)}']
    if info.get('skipped'):
        cls.append('skipped:nullable-call-in-prefix')
    if info.get('nullable_prefix'):
        cls.append('nullable-prefix-before-call')
    if info.get('ncycle', 0) >= 2:
        cls.append('multi-rule-cycle')
    return cls


def record(sh, rules, battery=True):
    reset_tatsu_state()
    d, info = check(rules, battery)
    gtext = grammar_text(rules)
    sh.case(gtext, (info.get('cycle') or info.get('nullable_prefix')) and not info.get('skipped'), classes_of(rules, info),
            sample=dict(grammar=gtext, cycle=info.get('cycle')))
    if info.get('skipped'):
        sh.note('skipped: call to a nullable rule inside a left-position prefix (outside the statement)')
    if d is not None:
        sh.fail(d['bucket'], dict(rules=rules), d)


def plan(tier):
    nsh = 16
    shards = [dict(kind='enum', index=i, nshards=nsh) for i in range(nsh)]
    n = 40 if tier == 'quick' else 1500
    shards += [dict(kind='random', n=n) for _ in range(16)]
    # two rules x <= 2 alternatives each (3.26 million graphs) through directly built models:
    # quick takes every 150th graph, thorough all of them
    shards += [dict(kind='direct', index=i, nshards=16, stride=150 if tier == 'quick' else 1) for i in range(16)]
    # the same shapes plus positive-closure prefixes ({['t']}+ {'t'}+ {[r]}+ {r}+): 1 rule x <= 2 alternatives and 2 rules x 1 alternative, all of them
    shards += [dict(kind='plus', index=i, nshards=4) for i in range(4)]
    return shards


def run_shard(sh, kind, **kw):
    if kind == 'enum':
        return run_enum(sh, **kw)
    if kind == 'direct':
        return run_direct(sh, **kw)
    if kind == 'plus':
        return run_plus(sh, **kw)
    return run_random(sh, **kw)


def run_plus(sh, index, nshards):
    b1 = bodies(1, 2, plus=True)
    a2 = alternatives(2, plus=True)
    graphs = [[('r0', b)] for b in b1] + [[('r0', a), ('r1', b)] for a in a2 for b in a2]
    complete = True
    for k, rules in enumerate(graphs):
        if k % nshards != index:
            continue
        if k % 512 == index and sh.out_of_budget():
            complete = False
            break
        if not any(e[0] == 'plus' for _, x in rules for e in _walk(x)):
            continue   # covered by the other tiers
        d, info = check_direct(rules)
        sh.evaluations += 1
        if (info.get('cycle') or info.get('nullable_prefix')) and not info.get('skipped'):
            sh.nontrivial.add(('plus', k))
        sh.classes['plus:cycle' if info.get('cycle') else 'plus:no-cycle'] += 1
        if info.get('skipped'):
            sh.classes['plus:skipped'] += 1
        if d is not None:
            sh.fail(d['bucket'], dict(rules=rules, direct=True), d)
        elif k % 97 == 0:
            dd, _ = check(rules, battery=True)     # the text route with the input battery on a sample
            sh.classes['plus:text-route+battery'] += 1
            if dd is not None:
                sh.fail(dd['bucket'], dict(rules=rules), dd)
    if len(sh.samples) < 2:
        sh.samples.append(dict(grammar=grammar_text(graphs[5 + index]), note='positive-closure tier sample'))
    sh.exhaustive[f'positive-closure prefixes: 1 rule x <= 2 alternatives and 2 rules x 1 alternative ({len(graphs)} graphs incl. those without one), detection + flags'] = complete


def _walk(e):
    from vf.gast import walk
    return walk(e)


def run_direct(sh, index, nshards, stride):
    b2 = bodies(2, 2)
    k = 0
    complete = True
    nb = len(b2)
    for ia in range(nb):
        if ia % 64 == 0 and sh.out_of_budget():
            complete = False
            break
        a = b2[ia]
        for ib in range(nb):
            k += 1
            if k % stride:
                continue
            if (k // stride) % nshards != index:
                continue
            rules = [('r0', a), ('r1', b2[ib])]
            d, info = check_direct(rules)
            sh.evaluations += 1
            if (info.get('cycle') or info.get('nullable_prefix')) and not info.get('skipped'):
                sh.nontrivial.add((ia << 16) | ib)
            sh.classes['direct:cycle' if info.get('cycle') else 'direct:no-cycle'] += 1
            if info.get('skipped'):
                sh.classes['direct:skipped'] += 1
            if d is not None:
                sh.fail(d['bucket'], dict(rules=rules, direct=True), d)
            elif (k // stride) % 997 == 0:
                # cross-check the shortcut against the text path: same flags, same pretty text
                try:
                    m1 = to_model(rules, True)
                    m2 = tu.compile_grammar(grammar_text(rules))
                    f1 = [(r.name, r.is_lrec, r.is_memo) for r in m1.rules]
                    f2 = [(r.name, r.is_lrec, r.is_memo) for r in m2.rules]
                    if f1 != f2 or m1.pretty() != m2.pretty():
                        sh.fail('direct:text-vs-model', dict(rules=rules, direct=True), dict(bucket='direct:text-vs-model', oracle='the directly built model equals the compiled text',
                                                                                         direct=f1, text=f2))
                    sh.classes['direct:text-crosscheck'] += 1
                except Exception as e:
                    sh.note(f'cross-check raised {type(e).__name__}')
    if len(sh.samples) < 3:
        sh.samples.append(dict(grammar=grammar_text([('r0', b2[7]), ('r1', b2[index * 50 % nb])]), note='direct tier sample'))
    sh.exhaustive[f'2 rules x <= 2 alternatives ({nb * nb} graphs), every {stride}th, detection + flags via directly built models'] = complete and stride == 1


def run_enum(sh, index, nshards):
    k = 0
    complete = True
    for body in bodies(1, 2):
        k += 1
        if k % nshards != index:
            continue
        if sh.out_of_budget():
            complete = False
            break
        record(sh, [('r0', body)])
    b2 = bodies(2, 1)
    for a in b2:
        for b in b2:
            k += 1
            if k % nshards != index:
                continue
            if sh.out_of_budget():
                complete = False
                break
            record(sh, [('r0', a), ('r1', b)])
    sh.exhaustive['1 rule x <=2 alternatives (420 graphs) and 2 rules x 1 alternative (1764 graphs)'] = complete


def run_random(sh, n):
    cache = {}

    def body(rnd):
        r = rnd.random()
        if r < 0.35:
            nr, ma = 2, 2
        elif r < 0.7:
            nr, ma = 3, rnd.choice([1, 1, 2])
        else:
            nr, ma = rnd.randint(4, 6), rnd.choice([1, 2])
        plus = rnd.random() < 0.5
        if (nr, plus) not in cache:
            cache[(nr, plus)] = alternatives(nr, plus)
        alts = cache[(nr, plus)]
        rules = []
        for i in range(nr):
            if ma == 2 and rnd.random() < 0.6:
                rules.append((f'r{i}', ('alt', (rnd.choice(alts), rnd.choice(alts)))))
            else:
                rules.append((f'r{i}', rnd.choice(alts)))
        record(sh, rules, battery=rnd.random() < 0.5 or nr <= 3)
    hyp_run(sh, gen.rnds(), body, n)


def replay(case):
    rules = [(n, tup(x)) for n, x in case['rules']]
    if case.get('direct'):
        d, _ = check_direct(rules)
        return d
    d, _ = check(rules)
    return d


def shrink_candidates(case):
    rules = [(n, tup(x)) for n, x in case['rules']]
    from vf.gast import shrink_exp, calls_in
    for i, (n, x) in enumerate(rules):
        for x2 in shrink_exp(x):
            yield dict(rules=rules[:i] + [(n, x2)] + rules[i + 1:])
    for i in range(len(rules) - 1, -1, -1):
        name = rules[i][0]
        others = rules[:i] + rules[i + 1:]
        if others and not any(name in calls_in(x) for _, x in others):
            yield dict(rules=others)
