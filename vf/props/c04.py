"""C04 — memoization and tracing never change what a parse returns (differential)."""
from __future__ import annotations

import contextlib
import io

from vf import gen, tu
from vf.core import hyp_run, reset_tatsu_state, watchdog, CaseTimeout
from vf.gast import grammar_text, shrink_rules, tup

PROPERTY = 'C04'
RULE = ('generated grammars (C01 generator with cuts, biased by a wrapper that retries the start rule at the same position after '
        'backtracking: `VF_RETRY: &x x | x "!!" | [x "??"] x`) and layered left-recursive expression grammars (vf.lrgen) x multi-line '
        'inputs (a third of the non-LR grammars decorate random rules with @nomemo / @nostak) x variants {memoization off (non-LR only), perlinememos in {0.01, 0.5, 1, 8}, prune_memos_on_cut on/off, trace on (output '
        'discarded), colorize on/off, parseinfo on} and pairs of them; oracle: outcome (ok+AST / failure class) equals the default '
        'configuration\'s outcome; an identity-returning counting semantics must see the same set of (rule, ast) pairs and no more calls '
        'with memoization than without. non-trivial = memoization saved at least one rule-body evaluation, or the input has >= 2 lines '
        'or passes a cut; distinct = distinct (grammar, input)')
ASSUMPTIONS = [
    'the default configuration is the reference point; C01 decides whether that outcome itself is right',
    'failure position is not compared (the statement says: success or failure, the AST, the class of the error)',
]
BUDGET_S = {'quick': 120, 'thorough': 1200}

RETRY = "\nVF_RETRY: &%(s)s a=%(s)s | b=%(s)s '!!' | [%(s)s '??'] c=%(s)s ;\n"

VARIANTS = [
    ('memo-off', dict(memoization=False), False),
    ('plm-0.01', dict(perlinememos=0.01), True),
    ('plm-0.5', dict(perlinememos=0.5), True),
    ('plm-1', dict(perlinememos=1), True),
    ('plm-8', dict(perlinememos=8), True),
    ('noprune', dict(prune_memos_on_cut=False), True),
    ('prune', dict(prune_memos_on_cut=True), True),
    ('trace', dict(trace=True, colorize=False), True),
    ('trace-color', dict(trace=True, colorize=True), True),
    ('nocolor', dict(colorize=False), True),
    ('parseinfo', dict(parseinfo=True), True),
    ('plm-0.01+noprune', dict(perlinememos=0.01, prune_memos_on_cut=False), True),
    ('memo-off+trace', dict(memoization=False, trace=True), False),
    ('plm-0.01+parseinfo', dict(perlinememos=0.01, parseinfo=True), True),
]


class Counting:
    def __init__(self):
        self.calls = []

    def _default(self, ast, *args, **kwargs):
        self.calls.append(ast)
        return ast


class Rejecting:
    def __init__(self, target):
        self.target = target

    def _default(self, ast, *args, **kwargs):
        from tatsu.exceptions import FailedSemantics
        if repr(tu.canon(ast)) == self.target:
            raise FailedSemantics('rejected by the harness')
        return ast


def piprobe(model):
    """a semantics with one method per rule that looks for the parse information of its *own* invocation in the AST it is handed.
    Parse information is added to a rule's result after its action ran; an AST that a rule merely passes on may carry the inner
    rule's entries, never the outer rule's own (same rule name and span)"""
    from tatsu.util import safe_name
    seen = []

    def make(rule):
        def method(self_, ast, *a, **kw):
            own = kw.get('parseinfo')
            pi = ast.get('parseinfo') if isinstance(ast, dict) else None
            if own is not None and pi is not None and getattr(pi, 'rule', None) == rule and (pi.pos, pi.endpos) == (own.pos, own.endpos):
                seen.append((rule, pi.pos, pi.endpos))
            return ast
        return method
    ns = {safe_name(r.name): make(r.name) for r in model.rules}
    return type('PiProbe', (), ns)(), seen


def quiet_outcome(model, text, start, **kw):
    buf = io.StringIO()
    with contextlib.redirect_stderr(buf), contextlib.redirect_stdout(buf):
        return tu.outcome(lambda: model.parse(text, start=start, **kw))


def check(gtext, start, text, lr, model=None, pick=None):
    """returns (detail|None, info)"""
    if model is None:
        try:
            model = tu.compile_grammar(gtext)
        except Exception as e:
            return dict(bucket=f'compile:{type(e).__name__}', oracle='grammar compiles', observed=str(e)[:300]), {}
    info = {}
    try:
        with watchdog(8):
            o0 = quiet_outcome(model, text, start)
            info['base'] = o0[0]
            for name, kw, lr_ok in VARIANTS:
                if lr and not lr_ok:
                    continue
                ov = quiet_outcome(model, text, start, **kw)
                same = ov[:2] == o0[:2] if o0[0] != 'ok' else ov == o0
                if not same:
                    return dict(bucket=f'variant:{name}', oracle='outcome equals the default configuration\'s outcome',
                                default=o0, variant=ov, settings=kw), info
            # counting semantics
            con, coff = Counting(), Counting()
            a = quiet_outcome(model, text, start, semantics=con)
            if a[:2] != o0[:2] or (a[0] == 'ok' and a != o0):
                return dict(bucket='identity-semantics', oracle='identity semantics == no semantics', default=o0, variant=a), info
            if not lr:
                b = quiet_outcome(model, text, start, semantics=coff, memoization=False)
                if b[:2] != o0[:2] or (b[0] == 'ok' and b != o0):
                    return dict(bucket='variant:memo-off+semantics', oracle='outcome equals default', default=o0, variant=b), info
                info['saved'] = len(coff.calls) - len(con.calls)
                if len(con.calls) > len(coff.calls):
                    return dict(bucket='more-calls-with-memo', oracle='memoization never adds rule-body evaluations',
                                with_memo=len(con.calls), without=len(coff.calls)), info
                son = {repr(tu.canon(x)) for x in con.calls}
                soff = {repr(tu.canon(x)) for x in coff.calls}
                if son != soff:
                    return dict(bucket='call-set', oracle='the set of ASTs handed to actions is the same with and without memoization',
                                only_with_memo=sorted(son - soff)[:3], only_without=sorted(soff - son)[:3]), info
            # parse information is added after the action: the action must not find its own invocation's entry in the AST
            # (only where every rule body runs once per position: no left recursion, no @nomemo/@nostak rules, default cache)
            if not lr and not any(r.no_memo or r.no_stak for r in model.rules):
                probe, seen = piprobe(model)
                quiet_outcome(model, text, start, semantics=probe, parseinfo=True)
                info['piprobe'] = True
                if seen:
                    return dict(bucket='action-sees-own-parseinfo', oracle='enabling parse information only adds entries to the results: an action is '
                                'handed the AST before the entry of its own invocation is set', observed=seen[:3]), info
            # a semantics that rejects one particular AST value (FailedSemantics): outcomes must not depend on memo settings
            if con.calls and pick is not None:
                target = repr(tu.canon(con.calls[pick % len(con.calls)]))
                base = None
                for name, kw, lr_ok in [('default', {}, True)] + VARIANTS[:7]:
                    if lr and not lr_ok:
                        continue
                    o = quiet_outcome(model, text, start, semantics=Rejecting(target), **kw)
                    if base is None:
                        base = o
                        info['rejecting'] = o[0]
                    elif (o[:2] != base[:2]) if base[0] != 'ok' else (o != base):
                        return dict(bucket=f'rejecting-semantics:{name}', oracle='with an action that raises FailedSemantics on one value, '
                                    'the outcome is the same under every memoization setting', default=base, variant=o, settings=kw,
                                    rejected_value=target), info
    except CaseTimeout:
        # exponential backtracking without memoization is what packrat parsing is for: inconclusive, not a violation
        info['timeout'] = True
        return None, info
    return None, info


def decorated_text(rules, deco):
    return grammar_text([dict(name=n, exp=x, decorators=tuple((deco or {}).get(n, ()))) for n, x in rules])


def plan(tier):
    n = 100 if tier == 'quick' else 2000
    return [dict(n=n) for _ in range(16)]


def run_shard(sh, n):
    gcfg = gen.GenCfg(cut=True)
    try:
        from vf import lrgen
    except ImportError:
        lrgen = None

    def body(rnd):
        reset_tatsu_state()
        lr = lrgen is not None and rnd.random() < 0.3
        if lr:
            spec = lrgen.gen_spec(rnd, stmt_ok=True)
            base = lrgen.spec_text(spec)
            start0 = lrgen.start_rule(spec)
            inputs = [lrgen.gen_input(rnd, spec) for _ in range(4)]
            gtext = base
            start = start0
        else:
            rules = gen.gen_rules(rnd, gcfg)
            twins = len(rules) >= 2 and rnd.random() < 0.3
            if twins:
                rules = gen.underscore_twins(rnd, rules)
            start0 = rules[0][0]
            deco = {}
            if rnd.random() < 0.35:
                # @nomemo / @nostak are hints (memo use, call stack shown in traces and errors): they must not change an outcome either
                for rn, _ in rules:
                    if rnd.random() < 0.4:
                        deco[rn] = rnd.choice([('nomemo',), ('nostak',), ('nomemo', 'nostak')])
            gtext = decorated_text(rules, deco) + RETRY % dict(s=start0)
            start = 'VF_RETRY'
            if rnd.random() < (0.6 if 'nostak' in deco.get(start0, ()) else 0.15):
                start = start0      # the grammar's own first rule is the start rule (it may be @nostak: nothing is on the rule stack then)
            rmap = dict(rules)
            inputs = []
            for _ in range(4):
                lx = gen.derive(rnd, rmap, rmap[start0])
                if rnd.random() < 0.3:
                    lx = gen.near_miss(rnd, lx)
                t = gen.layout(rnd, lx, rnd.choice(['varied', 'base', 'varied']))
                t += rnd.choice(['', '', ' !!', ' ??', '\n!!', ' ?? ' + t])
                inputs.append(t)
        try:
            model = tu.compile_grammar(gtext)
        except Exception as e:
            sh.fail(f'compile:{type(e).__name__}', dict(grammar=gtext, start=start, input='', lr=lr), dict(bucket=f'compile:{type(e).__name__}', observed=str(e)[:300]))
            return
        for text in inputs:
            pick = rnd.randrange(1000)
            d, info = check(gtext, start, text, lr, model, pick)
            nt = info.get('saved', 0) > 0 or '\n' in text or ('~' in gtext and info.get('base') == 'ok')
            cls = ['lr' if lr else 'non-lr', f'base:{info.get("base")}']
            if not lr and twins:
                cls.append('rule names that differ only in underscores')
            if not lr and deco:
                cls.append('has @nomemo/@nostak rules')
            if info.get('saved', 0) > 0:
                cls.append('memo-hit')
            if '\n' in text:
                cls.append('multi-line')
            sh.case((gtext, text), nt, cls, sample=dict(grammar=gtext, start=start, input=text, saved_evaluations=info.get('saved')))
            if info.get('timeout'):
                sh.flag('inconclusive-timeout')
            if d is not None:
                sh.fail(d['bucket'], dict(grammar=gtext, start=start, input=text, lr=lr, pick=pick, rules=None if lr else rules, deco=None if lr else deco, start0=start0), d)
    hyp_run(sh, gen.rnds(), body, n)


def replay(case):
    d, _ = check(case['grammar'], case['start'], case['input'], case.get('lr', False), pick=case.get('pick'))
    return d


def shrink_candidates(case):
    text = case['input']
    for i in range(len(text)):
        yield dict(case, input=text[:i] + text[i + 1:])
    if case.get('rules'):
        rules = [(n, tup(x)) for n, x in case['rules']]
        for r2 in shrink_rules(rules):
            if r2[0][0] == case['start0']:
                yield dict(case, rules=r2, grammar=decorated_text(r2, case.get('deco')) + RETRY % dict(s=case['start0']))
        if case.get('deco'):
            for k in case['deco']:
                d2 = {a: b for a, b in case['deco'].items() if a != k}
                yield dict(case, deco=d2, grammar=decorated_text(rules, d2) + RETRY % dict(s=case['start0']))


# ------------------------------------------------------------------ known findings
def _f_c04_b(case, detail):
    """which failure is reported among several at the furthest position: set_furthest_exception keeps the *last* one recorded
    (e.pos >= furthest.pos), and a re-evaluation that memoization would have skipped records the nested failures again.
    Same outcome kind and same position, another failure class, under a setting that changes what is cached"""
    a, b = detail.get('default'), detail.get('variant')
    if not (isinstance(a, (list, tuple)) and isinstance(b, (list, tuple)) and len(a) >= 3 and len(b) >= 3):
        return False
    if a[0] != 'fail' or b[0] != 'fail' or a[2] != b[2] or a[1] == b[1]:
        return False
    return bool(set(detail.get('settings') or {}) & {'memoization', 'perlinememos', 'prune_memos_on_cut'})


EXCLUSIONS = {'F-C04-b': _f_c04_b}
