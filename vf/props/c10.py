"""C10 — API results depend only on the arguments, not on earlier or concurrent calls.

Histories run in a forked child of a PRISTINE process (one that has imported tatsu and never called it); after
every step the same call — its arguments re-created from their descriptions — is executed in another child
forked from the pristine process, and the canonical results must be equal.
"""
from __future__ import annotations

import dataclasses

import contextlib
import gc
import io
import os
import pickle
import struct
import sys

from vf import gen, tu
from vf.core import hyp_run

PROPERTY = 'C10'
RULE = ('histories of 3-12 public API calls over a pool of 8 small grammars (some share text and differ in name, some have typed rules, keywords, '
        'directives, left recursion): tatsu.compile(g, name?, asmodel?, semantics?, ignorecase?, whitespace?), tatsu.parse(g, t, start?, asmodel?, '
        'semantics?), model.parse(t, start?, **settings) on any model obtained so far (also after a failed parse on it), to_python_sourcecode, '
        'exec + instantiate a generated parser and parse with it repeatedly (also after failures, with per-call settings), to_python_model, and '
        'dropping references + gc.collect(). Oracle: each step\'s canonical result equals the result of the same call in a child forked from a '
        'pristine process; a parse never changes the model\'s pretty()/config or a caller-supplied ParserConfig. Schedules: 2-8 threads parse their '
        'own input lists on one shared model under sys.setswitchinterval(1e-6); every result equals the sequential one (sampled, not owned). '
        'non-trivial = a history of >= 3 calls in which a later call shares its grammar text with an earlier one and differs in another '
        'argument, or follows a failed parse on the same object; distinct = distinct history')
ASSUMPTIONS = [
    'a child forked from a process that imported tatsu but never called it stands for "a fresh interpreter" (same module state, 5 ms instead of 1 s)',
    'thread schedules are sampled under a tiny switch interval, not owned: a race that needs one specific preemption point may be missed',
]
BUDGET_S = {'quick': 150, 'thorough': 1500}

GRAMS = {
    'g1': "start: a+:'a' {b+:'b'} $ ;\n",
    'g1b': "start: a+:'a' {b+:'b'} $ ;\n",      # same text as g1 (used with a different name)
    'g2': "start::Prog: items+=item {',' items+=item} $ ;\n\nitem::Item: name=/[a-z]+/ ;\n",
    'g3': "@@ignorecase :: True\n@@keyword :: (if)\n\nstart: {id}+ $ ;\n\n@name\nid: /[a-zA-Z]+/ ;\n",
    'g4': "start: e $ ;\n\ne: e '+' t | t ;\n\nt: /[0-9]+/ ;\n",
    'g5': "@@whitespace :: /[ ]+/\n\nstart: 'a' 'b' $ ;\n\nother: 'x' ;\n",
    'g6': "start::Prog::Base: 'x' v=val $ ;\n\nval::Item::Other: /[0-9]+/ ;\n",
    'g7': "@@keyword :: (let)\n\nstart: {stmt}+ $ ;\n\nstmt: 'let' n=name | n=name ;\n\n@name\nname: /[a-z]+/ ;\n",
    # a rule whose value is a bare scalar of varying type and equal value (True / 1 / 1.0): a cache keyed by value would confuse them
    # node classes named like grammar-model classes: they must not disturb later reloads of grammar models from JSON
    'g9': "start::Rule: {t+:tok}+ $ ;\n\ntok::Token: /[a-z]+/ ;\n",
    # constants that name things: what a constant can see must not depend on what was parsed before
    'g10': "start: secret=/[a-z0-9]+/ c=`{secret}!` $ ;\n",
    'g11': "start: n=/[a-z0-9]+/ c=`{secret}?` d=`x{n}y` $ ;\n",
    'g8': "start: {v}* $ ;\n\nv: 'b' @:@bool | 'i' @:@int | 'f' @:@float ;\n",
    # node classes named like the classes of the object-model machinery itself
    'g12': "start::SynthNode: x=/[a-z]+/ {y+=item} $ ;\n\nitem::Node: /[0-9]+/ ;\n",
}
TEXTS = ['a b b', 'a', 'x, y', 'x', 'foo if', 'Foo BAR', '1+2+3', '1+', 'a b', 'a\nb', 'x 1', 'A B', 'let q r', 'let let', '', 'x,', 'A',
         'i 1 b true f 1.0', 'b true i 1', 'f 1.0 b true i 1', 'i 0 b false f 0.0', 'b false i 0']
STARTS = {'g2': ['item'], 'g4': ['e', 't'], 'g5': ['other'], 'g6': ['val'], 'g7': ['stmt', 'name'], 'g3': ['id'], 'g8': ['v'], 'g9': ['tok']}


class SemA:
    def start(self, ast):
        return ('A', ast)


class SemB:
    def _default(self, ast, *a, **k):
        return ('B', ast)


class SemScale:
    """instances of one class that behave differently"""

    def __init__(self, k):
        self.k = k

    def _default(self, ast, *a, **kw):
        return ('S', self.k, ast)


@dataclasses.dataclass(frozen=True)
class SemFrozen:
    """instances compare equal and hash alike, and still behave differently"""
    k: int = dataclasses.field(default=0, compare=False)

    def _default(self, ast, *a, **kw):
        return ('F', self.k, ast)


@dataclasses.dataclass
class SemData:
    """a plain dataclass: __eq__ without __hash__"""
    k: int = 0

    def _default(self, ast, *a, **kw):
        return ('D', self.k, ast)


class SemUnreached:
    """has an action, but for a rule no grammar of the pool has: nothing the parser looks up on it is found"""

    def zz_unreached(self, ast):
        return ('N', ast)


SEMS = {'none': lambda: None, 'N': SemUnreached, 'A': SemA, 'B': SemB, 'S2': lambda: SemScale(2), 'S3': lambda: SemScale(3),
        'F1': lambda: SemFrozen(1), 'F2': lambda: SemFrozen(2), 'D1': lambda: SemData(1), 'D2': lambda: SemData(2)}


def _bases():
    from tatsu.objectmodel import Node

    class BaseA(Node):
        pass

    class BaseB(Node):
        pass
    return {'A': BaseA, 'B': BaseB}


def canon(x, depth=0):
    from tatsu.objectmodel import Node
    if depth > 50:
        return '<deep>'
    if isinstance(x, Node):
        return ('node', type(x).__name__, [b.__name__ for b in type(x).__mro__[1:3]],
                canon({k: v for k, v in vars(x).items() if not k.startswith('_') and k not in ('ctx', 'parseinfo')}, depth + 1))
    if isinstance(x, dict):
        return {str(k): canon(v, depth + 1) for k, v in sorted(x.items()) if k not in ('parseinfo', '__parseinfo__')}
    if isinstance(x, (list, tuple)):
        return [canon(v, depth + 1) for v in x]
    if isinstance(x, (bool, float)):
        return tu.Typed(x)   # True == 1 == 1.0 in Python: keep the type in the comparison
    if isinstance(x, (str, int)) or x is None:
        return x
    return repr(type(x).__name__)


def model_state(m):
    cfg = m.config.asdict()
    cfg.pop('semantics', None)
    return (m.pretty(), repr(sorted((k, repr(v)) for k, v in cfg.items())), type(m.config.semantics).__name__)


def run_op(op, env):
    """executes one op; env maps variable names to objects created by earlier ops"""
    import tatsu
    from tatsu.exceptions import ParseException
    kind = op[0]
    try:
        if kind == 'compile':
            _, g, name, asmodel, sem, ic, ws, var = op
            kw = {}
            if ic is not None:
                kw['ignorecase'] = ic
            if ws is not None:
                kw['whitespace'] = ws
            m = tatsu.compile(GRAMS[g], name=name, asmodel=asmodel, semantics=SEMS[sem](), **kw)
            env[var] = m
            return ('ok', m.name, type(m.semantics).__name__, m.config.ignorecase, repr(m.config.whitespace), canon(m.directives), list(m.keywords), m.pretty())
        if kind == 'bcompile':
            # model building configured through a BuilderConfig object that the caller does not keep
            from tatsu.objectmodel.builder import BuilderConfig
            _, g, name, base, var = op
            if '__bases__' not in env:
                env['__bases__'] = _bases()
            bases = env['__bases__']
            bc = BuilderConfig(basetype=bases[base])
            m = tatsu.compile(GRAMS[g], name=name, builderconfig=bc)
            env[var] = m
            del bc
            return ('ok', m.name, type(m.semantics).__name__)
        if kind == 'bshared':
            # ONE BuilderConfig object that the caller keeps and hands to several calls; some of them also give typedefs (user classes
            # named like node types).  Each call's result depends on its own arguments only, and the config object is not altered.
            from tatsu.objectmodel import Node
            from tatsu.objectmodel.builder import BuilderConfig
            _, g, text, with_typedefs = op
            if '__bc__' not in env:
                env['__bc__'] = BuilderConfig()
            bc = env['__bc__']
            before = (list(bc.typedefs), list(bc.constructors), bc.basetype, bc.synthok)
            kw = {}
            if with_typedefs:
                kw['typedefs'] = [{'Item': type('Item', (Node,), {'user_defined': True}), 'Prog': type('Prog', (Node,), {'user_defined': True})}]
            try:
                res = ('ok', canon(tatsu.parse(GRAMS[g], text, builderconfig=bc, **kw)))
            except ParseException as e:
                res = ('fail', type(e).__name__)
            after = (list(bc.typedefs), list(bc.constructors), bc.basetype, bc.synthok)
            if before != after:
                return ('MUTATED', repr(before)[:200], repr(after)[:200])
            return res
        if kind in ('spair', 'ssingle'):
            # two parses in a row with two semantics objects the caller does not keep (the second is very likely to get the address of
            # the first).  The reference is two independent single calls.
            _, g, text, sems = op[:4]
            m = tatsu.compile(GRAMS[g], name='SP')
            out = []
            rounds = op[4] if len(op) > 4 else 1
            for sname in (list(sems) * rounds if kind == 'spair' else sems[:1]):
                sem = SEMS[sname]()
                try:
                    out.append(('ok', canon(m.parse(text, semantics=sem))))
                except ParseException as e:
                    out.append(('fail', type(e).__name__))
                del sem
            return ('ok', *out)
        if kind in ('bpair', 'bsingle'):
            # two compile() calls in a row that differ only in a BuilderConfig the caller does not keep (the second object is very
            # likely to get the address of the first), then a parse with each model.  The reference is two independent single calls.
            from tatsu.objectmodel.builder import BuilderConfig
            _, g, name, first, text = op[:5]
            if '__bases__' not in env:
                env['__bases__'] = _bases()
            bases = env['__bases__']
            order = [first] if kind == 'bsingle' else [first, 'B' if first == 'A' else 'A']
            ms = []
            for b in order:
                bc = BuilderConfig(basetype=bases[b])
                ms.append(tatsu.compile(GRAMS[g], name=name, builderconfig=bc))
                del bc      # the caller's last reference goes right before the next object is created
            out = []
            for m in ms:
                try:
                    out.append(('ok', canon(m.parse(text))))
                except ParseException as e:
                    out.append(('fail', type(e).__name__))
            return ('ok', *out)
        if kind == 'mparse':
            _, var, text, start, kw = op
            m = env[var]
            before = model_state(m)
            try:
                res = ('ok', canon(m.parse(text, start=start, **kw)))
            except ParseException as e:
                res = ('fail', type(e).__name__)
            after = model_state(m)
            if before != after:
                return ('MUTATED', [a for a, b in zip(before, after) if a != b][0][:200], [b for a, b in zip(before, after) if a != b][0][:200])
            return res
        if kind == 'cparse':
            # model.parse with a caller-supplied ParserConfig that must not be altered
            from tatsu.config import ParserConfig
            _, var, text, kw = op
            m = env[var]
            cfg = ParserConfig(**kw)
            before = repr(sorted((k, repr(v)) for k, v in cfg.asdict().items()))
            try:
                res = ('ok', canon(m.parse(text, config=cfg)))
            except ParseException as e:
                res = ('fail', type(e).__name__)
            after = repr(sorted((k, repr(v)) for k, v in cfg.asdict().items()))
            if before != after:
                return ('MUTATED', before[:200], after[:200])
            return res
        if kind == 'parse':
            _, g, text, start, asmodel, sem = op
            return ('ok', canon(tatsu.parse(GRAMS[g], text, start=start, asmodel=asmodel, semantics=SEMS[sem]())))
        if kind == 'src':
            _, g, name = op
            return ('ok', tatsu.to_python_sourcecode(GRAMS[g], name=name))
        if kind == 'pymodel':
            _, g, name = op
            return ('ok', tatsu.to_python_model(GRAMS[g], name=name))
        if kind == 'gen':
            _, g, name, var = op
            src = tatsu.to_python_sourcecode(GRAMS[g], name=name)
            ns = {}
            exec(compile(src, f'<{var}>', 'exec'), ns)  # noqa: S102 - generated parser source under test
            cls = ns[f'{name}Parser']
            env[var] = cls()
            return ('ok', cls.__name__)
        if kind == 'gparse':
            _, var, text, start, kw, sem = op
            p = env[var]
            return ('ok', canon(p.parse(text, start=start, semantics=SEMS[sem](), **kw)))
        if kind == 'bparse':
            # the grammar given as a Text object (compile accepts str | Text)
            from tatsu.input.buffer import Buffer
            from tatsu.input.textlines import TextLines
            _, g, text, how = op
            m = tatsu.compile(Buffer(GRAMS[g]) if how == 'buffer' else TextLines(GRAMS[g]))
            return ('ok', m.pretty(), canon(m.parse(text)))
        if kind == 'jsonload':
            from tatsu.peg import Grammar
            m = env[op[1]]
            m2 = Grammar.loads(m.asjsons())
            return ('ok', m2.pretty(), canon(m2.parse(op[2])) if op[2] is not None else None)
        if kind == 'gc':
            for v in op[1]:
                env.pop(v, None)
            gc.collect()
            return ('ok',)
    except ParseException as e:
        return ('fail', type(e).__name__)
    except Exception as e:
        if tu.harness_fault(e):
            raise
        return ('EXC', type(e).__name__, str(e)[:100])
    return ('?',)


# ------------------------------------------------------------------ fork plumbing
def _send(fd, obj):
    b = pickle.dumps(obj)
    os.write(fd, struct.pack('<I', len(b)) + b)


def _recv(fd):
    h = b''
    while len(h) < 4:
        c = os.read(fd, 4 - len(h))
        if not c:
            return None
        h += c
    n = struct.unpack('<I', h)[0]
    b = b''
    while len(b) < n:
        c = os.read(fd, n - len(b))
        if not c:
            return None
        b += c
    return pickle.loads(b)


def eval_fresh(ops):
    """called in a PRISTINE process: fork a child, run ops there, return the last result"""
    r, w = os.pipe()
    pid = os.fork()
    if pid == 0:
        try:
            os.close(r)
            env = {}
            res = None
            with contextlib.redirect_stderr(io.StringIO()), contextlib.redirect_stdout(io.StringIO()):
                for op in ops:
                    res = run_op(op, env)
            _send(w, res)
        finally:
            os._exit(0)
    os.close(w)
    res = _recv(r)
    os.close(r)
    os.waitpid(pid, 0)
    return res


def needed_ops(history, i):
    """ops that re-create, from descriptions, everything step i needs"""
    op = history[i]
    var = None
    if op[0] in ('mparse', 'cparse', 'gparse', 'jsonload'):
        var = op[1]
    if var is None:
        return [op]
    creator = None
    for prev in history[:i]:
        if prev[0] in ('compile', 'gen', 'bcompile') and prev[-1] == var:
            creator = prev
    return [creator, op] if creator else [op]


def run_history(history):
    """runs the history in a forked child of this (pristine) process; references are computed by further children
    of this process.  returns list of (step index, observed, reference)"""
    req_r, req_w = os.pipe()
    rep_r, rep_w = os.pipe()
    pid = os.fork()
    if pid == 0:
        try:
            os.close(req_r)
            os.close(rep_w)
            env = {}
            out = []
            sys.setswitchinterval(0.005)
            with contextlib.redirect_stderr(io.StringIO()), contextlib.redirect_stdout(io.StringIO()):
                for i, op in enumerate(history):
                    res = run_op(op, env)
                    _send(req_w, ('REF', needed_ops(history, i)))
                    ref = _recv(rep_r)
                    if res != ref:
                        out.append((i, res, ref))
            _send(req_w, ('DONE', out))
        finally:
            os._exit(0)
    os.close(req_w)
    os.close(rep_r)
    result = []
    while True:
        msg = _recv(req_r)
        if msg is None:
            break
        if msg[0] == 'DONE':
            result = msg[1]
            break
        ops = msg[1]
        if ops[-1][0] == 'spair':
            _, g, text, sems = ops[-1][:4]
            rounds = ops[-1][4] if len(ops[-1]) > 4 else 1
            a = eval_fresh([('ssingle', g, text, sems[:1])])
            b = eval_fresh([('ssingle', g, text, sems[1:])])
            _send(rep_w, ('ok', *([a[1], b[1]] * rounds)) if a and b and a[0] == b[0] == 'ok' else ('?', a, b))
            continue
        if ops[-1][0] == 'bpair':
            # the pair is judged against two independent fresh processes, one per compile() call
            _, g, name, first, text = ops[-1][:5]
            a = eval_fresh([('bsingle', g, name, first, text)])
            b = eval_fresh([('bsingle', g, name, 'B' if first == 'A' else 'A', text)])
            _send(rep_w, ('ok', a[1], b[1]) if a and b and a[0] == b[0] == 'ok' else ('?', a, b))
            continue
        _send(rep_w, eval_fresh(ops))
    os.close(req_r)
    os.close(rep_w)
    os.waitpid(pid, 0)
    return result


OWN_TEXTS = {'g1': ['a b b', 'a'], 'g5': ['a b', 'x'], 'g6': ['x 1', '1'], 'g10': ['hunter2', 'abc'], 'g11': ['abc', 'zz9'],
             'g8': ['i 1 b true f 1.0', 'b true i 1', 'f 1.0 b true i 1', 'i 0 b false f 0.0', 'b false i 0',
                    # one value per call: equal values of different types arrive in DIFFERENT calls on one object
                    'i 1', 'b true', 'f 1.0', 'i 0', 'b false', 'f 0.0'],
             'g4': ['1+2+3', '1+'], 'g7': ['let q r', 'let let', 'let LET q', 'LET q'], 'g3': ['foo if', 'Foo BAR', 'foo IF', 'If'], 'g2': ['x, y', 'x', 'x,'], 'g9': ['foo bar', 'x'], 'g12': ['abc', 'abc 1 2']}


def pick_text(rnd, g):
    if g in OWN_TEXTS and rnd.random() < 0.6:
        return rnd.choice(OWN_TEXTS[g])
    return rnd.choice(TEXTS)


# ------------------------------------------------------------------ generation
def gen_history(rnd):
    n = rnd.randint(3, 12)
    hist = []
    models, parsers = {}, {}
    if rnd.random() < 0.2:
        # two grammars that declare a node class of the same name with different bases (g2: Item, g6: Item::Other), both building models
        ga, gb = rnd.choice([('g6', 'g2'), ('g2', 'g6')])
        for g in (ga, gb):
            hist.append(('parse', g, rnd.choice(OWN_TEXTS[g][:2] if g == 'g2' else OWN_TEXTS[g][:1]), None, True, 'none'))
    if rnd.random() < 0.08:
        # one model with one semantics object, and equal values of different types (1 / True / 1.0) arriving in different calls
        hist.append(('compile', 'g8', None, False, rnd.choice(['B', 'S2', 'F1', 'D1']), None, None, 'mv'))
        models['mv'] = 'g8'
        for _ in range(rnd.randint(2, 4)):
            hist.append(('mparse', 'mv', rnd.choice(['i 1', 'b true', 'f 1.0', 'i 0', 'b false', 'f 0.0']), None, {}))
    for step in range(n):
        c = rnd.random()
        if c < 0.3 or not (models or parsers):
            var = f'm{step}'
            g = rnd.choice(list(GRAMS))
            op = ('compile', g, rnd.choice([None, None, 'N1', 'N2']), rnd.choice([False, False, True]), rnd.choice(['none', 'none', 'none', 'A', 'B', 'S2', 'S3', 'F1', 'F2', 'D1', 'D2']),
                  rnd.choice([None, None, True]), rnd.choice([None, None, None, ' ']), var)
            models[var] = g
            if rnd.random() < 0.2:
                g = rnd.choice(['g2', 'g6', 'g9'])
                op = ('bcompile', g, rnd.choice([None, None, 'N1']), rnd.choice(['A', 'B']), var)
                models[var] = g
        elif c < 0.55 and models:
            var = rnd.choice(list(models))
            g = models[var]
            start = rnd.choice(STARTS.get(g, [None]) + [None, None])
            kw = rnd.choice([{}, {}, {'ignorecase': True}, {'ignorecase': False}, {'parseinfo': True}, {'whitespace': ''}, {'nameguard': False}, {'asmodel': True}, {'trace': False, 'colorize': False}])
            op = ('mparse', var, pick_text(rnd, g), start, kw)
        elif c < 0.6 and models:
            var = rnd.choice(list(models))
            op = ('cparse', var, pick_text(rnd, models[var]), rnd.choice([{}, {'ignorecase': True}, {'nameguard': False}, {'parseinfo': True}]))
        elif c < 0.72:
            g = rnd.choice(list(GRAMS))
            op = ('parse', g, pick_text(rnd, g), rnd.choice(STARTS.get(g, [None]) + [None, None]), rnd.choice([False, False, True]), rnd.choice(['none', 'none', 'A', 'F1', 'F2', 'D2']))
        elif c < 0.79:
            var = f'p{step}'
            g = rnd.choice(list(GRAMS))
            op = ('gen', g, rnd.choice(['G1', 'G2']), var)
            parsers[var] = g
        elif c < 0.815:
            g = rnd.choice(list(GRAMS))
            sems = rnd.sample(['A', 'B', 'S2', 'S3', 'F1', 'D1', 'N'], 2)
            if rnd.random() < 0.3:
                sems[0] = 'N' if sems[1] != 'N' else 'A'    # first an object on which no action is found, then (likely at its address) one with actions
            op = ('spair', g, pick_text(rnd, g), sems, rnd.randint(1, 6))      # the pair several times over: address reuse is likely, not certain
        elif c < 0.83:
            g = rnd.choice(['g2', 'g6', 'g9', 'g2'])
            op = ('bshared', g, rnd.choice(OWN_TEXTS[g]), rnd.random() < 0.5)
        elif c < 0.92 and parsers:
            var = rnd.choice(list(parsers))
            g = parsers[var]
            op = ('gparse', var, pick_text(rnd, g), rnd.choice(STARTS.get(g, [None]) + [None, None]), rnd.choice([{}, {}, {'ignorecase': True}, {'ignorecase': False}, {'parseinfo': True}, {'whitespace': ''}, {'asmodel': True}]),
                  rnd.choice(['none', 'none', 'A', 'B', 'F1', 'F2', 'D1']))
        elif c < 0.93:
            g = rnd.choice(list(GRAMS))
            op = ('bparse', g, pick_text(rnd, g), rnd.choice(['buffer', 'textlines']))
        elif c < 0.945 and models:
            var = rnd.choice(list(models))
            op = ('jsonload', var, pick_text(rnd, models[var]) if rnd.random() < 0.5 else None)
        elif c < 0.953:
            g = rnd.choice(['g2', 'g6', 'g9'])
            op = ('bpair', g, rnd.choice([None, 'N1']), rnd.choice(['A', 'B']), rnd.choice(OWN_TEXTS[g]))
        elif c < 0.96:
            op = (rnd.choice(['src', 'pymodel']), rnd.choice(list(GRAMS)), rnd.choice([None, 'N1']))
        else:
            drop = [v for v in list(models) + list(parsers) if rnd.random() < 0.5]
            for v in drop:
                models.pop(v, None)
                parsers.pop(v, None)
            op = ('gc', drop)
        hist.append(op)
        if op[0] == 'bshared':
            # the kept config goes to further calls, with and without typedefs
            for _ in range(rnd.randint(1, 3)):
                g2 = rnd.choice(['g2', 'g6', 'g2'])
                hist.append(('bshared', g2, rnd.choice(OWN_TEXTS[g2]), rnd.random() < 0.4))
        if op[0] == 'bcompile' and rnd.random() < 0.6:
            # the same call with another base class (its BuilderConfig may well get the address of the first one), then the first model again
            hist.append(('mparse', op[-1], pick_text(rnd, op[1]), None, {}))
            hist.append(('bcompile', op[1], op[2], 'B' if op[3] == 'A' else 'A', f'm{step}s'))
            models[f'm{step}s'] = op[1]
            hist.append(('mparse', op[-1], pick_text(rnd, op[1]), None, {}))
            hist.append(('mparse', f'm{step}s', pick_text(rnd, op[1]), None, {}))
        if op[0] == 'compile' and rnd.random() < 0.35:
            # a sibling call: same grammar text and name, one other argument different; then the first object is used again
            sib = list(op)
            which = rnd.choice(['sem', 'asmodel', 'ic', 'name'])
            if which == 'sem':
                sib[4] = rnd.choice([x for x in ['none', 'A', 'B', 'S2', 'S3'] if x != op[4]])
                if op[4] in ('S2', 'S3'):
                    sib[4] = 'S3' if op[4] == 'S2' else 'S2'
                if op[4] in ('F1', 'F2', 'D1', 'D2'):
                    sib[4] = op[4][0] + ('2' if op[4][1] == '1' else '1')
            elif which == 'asmodel':
                sib[3] = not op[3]
            elif which == 'ic':
                sib[5] = True if not op[5] else None
            else:
                sib[2] = 'N2' if op[2] != 'N2' else None
            sib[-1] = f'm{step}s'
            hist.append(tuple(sib))
            models[sib[-1]] = op[1]
            hist.append(('mparse', op[-1], pick_text(rnd, op[1]), None, {}))
        # a burst of parses on a freshly created object: reuse after failures, with and without per-call settings
        if op[0] in ('compile', 'gen') and rnd.random() < 0.6:
            var, g = op[-1], op[1]
            for _ in range(rnd.randint(2, 4)):
                start = rnd.choice(STARTS.get(g, [None]) + [None, None])
                if op[0] == 'gen':
                    hist.append(('gparse', var, pick_text(rnd, g), start, rnd.choice([{}, {}, {'ignorecase': True}, {'parseinfo': True}, {'whitespace': ''}, {'nameguard': False}, {'asmodel': True}, {'asmodel': True}]),
                                 rnd.choice(['none', 'none', 'A', 'B', 'F1', 'F2', 'D1'])))
                else:
                    hist.append(('mparse', var, pick_text(rnd, g), start, rnd.choice([{}, {}, {'ignorecase': True}, {'parseinfo': True}, {'whitespace': ''}, {'asmodel': True}])))
    return hist[:14]


def nontrivial(hist):
    if len(hist) < 3:
        return False
    seen = {}
    for op in hist:
        if op[0] == 'compile':
            text = GRAMS[op[1]]
            if text in seen and seen[text] != op[2:7]:
                return True
            seen.setdefault(text, op[2:7])
    # a parse after a failed parse on the same object is likely with the bad texts; count histories with >= 2 parses on one object
    counts = {}
    for op in hist:
        if op[0] in ('mparse', 'gparse'):
            counts[op[1]] = counts.get(op[1], 0) + 1
    return any(v >= 2 for v in counts.values())


def check_history(hist):
    hist = [list(op) for op in hist]
    diffs = run_history(hist)
    if not diffs:
        return None
    i, res, ref = diffs[0]
    op = hist[i]
    kind = 'model-mutated' if res and res[0] == 'MUTATED' else f'{op[0]}:{res[0]}-vs-{ref[0] if ref else None}'
    return dict(bucket=f'history:{kind}', oracle='the result of an API call equals the result of the same call in a fresh process', step=i, op=list(op),
                observed=_short(res), fresh=_short(ref), n_diffs=len(diffs))


def _short(x):
    s = repr(x)
    return s if len(s) < 500 else s[:500] + '...'


# ------------------------------------------------------------------ threads
def check_threads(g, nthreads, lists, kw, threads_first=False, compile_asmodel=False):
    """runs in a forked child (so the switch interval and thread state do not leak).  With threads_first the threads are the
    first users of the freshly compiled model (lazy one-time work happens under contention) and the sequential reference
    is computed afterwards"""
    def child():
        import threading

        import tatsu
        from tatsu.exceptions import ParseException
        m = tatsu.compile(GRAMS[g], name='T10', asmodel=compile_asmodel)

        def one(t):
            try:
                return ('ok', canon(m.parse(t, **kw)))
            except ParseException as e:
                return ('fail', type(e).__name__)
            except Exception as e:
                return ('EXC', type(e).__name__, str(e)[:80])
        if not threads_first:
            seq = [[one(t) for t in lst] for lst in lists]
        out = [None] * nthreads
        sys.setswitchinterval(1e-6)
        barrier = threading.Barrier(nthreads)

        def work(i):
            barrier.wait()
            out[i] = [one(t) for t in lists[i]]
        ths = [threading.Thread(target=work, args=(i,)) for i in range(nthreads)]
        for t in ths:
            t.start()
        for t in ths:
            t.join()
        if threads_first:
            sys.setswitchinterval(0.005)
            seq = [[one(t) for t in lst] for lst in lists]
        bad = [(i, j, out[i][j], seq[i][j]) for i in range(nthreads) for j in range(len(lists[i])) if out[i][j] != seq[i][j]]
        return bad[:3]
    r, w = os.pipe()
    pid = os.fork()
    if pid == 0:
        try:
            os.close(r)
            with contextlib.redirect_stderr(io.StringIO()), contextlib.redirect_stdout(io.StringIO()):
                try:
                    res = child()
                except Exception as e:
                    res = [('harness', type(e).__name__, str(e)[:100])]
            _send(w, res)
        finally:
            os._exit(0)
    os.close(w)
    bad = _recv(r)
    os.close(r)
    os.waitpid(pid, 0)
    if bad:
        return dict(bucket='threads', oracle='threads parsing on one shared model get the results of sequential parsing', grammar=g, nthreads=nthreads, first=_short(bad[0]))
    return None


def plan(tier):
    n = 60 if tier == 'quick' else 1500
    nt = 25 if tier == 'quick' else 400
    return [dict(kind='histories', n=n) for _ in range(12)] + [dict(kind='threads', n=nt) for _ in range(4)]


def run_shard(sh, kind, n):
    # NOTE this process must stay pristine: it never calls the tatsu API itself
    if kind == 'threads':
        def tbody(rnd):
            g = rnd.choice(['g1', 'g2', 'g4', 'g7', 'g3', 'g2', 'g6', 'g9', 'g8'])
            nth = rnd.randint(2, 8)
            lists = [[pick_text(rnd, g) for _ in range(rnd.randint(3, 10))] for _ in range(nth)]
            typed = g in ('g2', 'g6', 'g9')
            kw = rnd.choice([{}, {}, {'parseinfo': True}, {'asmodel': True} if typed else {}])
            threads_first = rnd.random() < 0.6
            compile_asmodel = typed and rnd.random() < 0.5
            d = check_threads(g, nth, lists, kw, threads_first, compile_asmodel)
            sh.case(('threads', g, nth, repr(lists), repr(kw), threads_first, compile_asmodel), True,
                    ['threads', f'threads:{nth}'] + (['threads:first-use'] if threads_first else []) + (['threads:model-building'] if compile_asmodel or kw.get('asmodel') else []),
                    sample=dict(grammar=g, threads=nth, inputs=lists[0][:3]))
            if d:
                sh.fail(d['bucket'], dict(kind='threads', g=g, nthreads=nth, lists=lists, kw=kw, threads_first=threads_first, compile_asmodel=compile_asmodel), d)
        hyp_run(sh, gen.rnds(), tbody, n, label='threads')
        return

    def body(rnd):
        hist = gen_history(rnd)
        d = check_history(hist)
        kinds = sorted({op[0] for op in hist})
        sh.case(('history', repr(hist)), nontrivial(hist), ['history', f'len:{min(len(hist), 12)}'] + [f'op:{k}' for k in kinds], sample=dict(history=[list(op) for op in hist][:8]))
        if d:
            sh.fail(d['bucket'], dict(kind='history', history=[list(op) for op in hist]), d)
    hyp_run(sh, gen.rnds(), body, n)


def replay(case):
    if case.get('kind') == 'threads':
        return check_threads(case['g'], case['nthreads'], case['lists'], case['kw'], bool(case.get('threads_first')), bool(case.get('compile_asmodel')))
    return check_history([tuple(op) for op in case['history']])


def shrink_candidates(case):
    if case.get('kind') != 'history':
        return
    hist = case['history']
    for i in range(len(hist) - 1, -1, -1):
        yield dict(case, history=hist[:i] + hist[i + 1:])


EXCLUSIONS = {}
