"""C11 — reserved words are never accepted where a name is required."""
from __future__ import annotations

from vf import gen, tu
from vf.core import hyp_run, reset_tatsu_state, watchdog, CaseTimeout
from vf.gast import children, grammar_text, replace_children, shrink_rules, tup, walk
from vf.refpeg import Ref

PROPERTY = 'C11'
RULE = ('generated grammars (C01 generator) in which some token leaves are replaced by calls to an @name rule `ident` (bodies: /[a-c]+/, '
        '/[a-cA-C]+/, /\\w+/, @name, a choice of tokens) so that it occurs in choices, closures, lookaheads and after optionals; 1-3 keywords (a quarter of the cases: 9-33 keywords, so that the keyword list spans several lines in pretty() and in generated code) '
        '(bare words and quoted strings, any case); @@ignorecase on/off or ignorecase= at parse time; inputs derived from the grammar with '
        'identifier lexemes drawn from keywords, keyword prefixes/suffixes, case variants and ordinary names. Oracles: RefPEG with the '
        'documented rule (after the @name rule\'s body succeeds, fail if str(value), upper-cased under ignorecase, is a keyword); a collecting '
        'semantics must never be handed a keyword by the @name rule; the grammar without the decorator gives the same outcome whenever its '
        'ident action saw no keyword; model == generated parser. non-trivial = the reference or the undecorated run saw a keyword (or case '
        'variant) at a position where the @name rule was attempted; distinct = distinct (grammar, config, input)')
ASSUMPTIONS = ['keywords are compared with str(value); case-insensitively exactly when ignorecase is in effect (directive or parse-time setting)']
BUDGET_S = {'quick': 150, 'thorough': 1500}

IDENT_BODIES = [('pat', '[a-c]+'), ('pat', '[a-cA-C]+'), ('pat', r'\w+'), ('meta', 'name'), ('alt', (('tok', 'ab'), ('tok', 'a'), ('tok', 'c'), ('tok', 'b')))]
WORDS = ['a', 'b', 'c', 'ab', 'abc', 'ca', 'A', 'Ab', 'AB', 'aB', 'C', 'abA', 'cab', 'ba']


class Collect:
    """records every value the @name rule (ident / IDENT) hands to its action"""

    def __init__(self):
        self.seen = []

    def ident(self, ast, *a, **k):
        self.seen.append(ast)
        return ast

    IDENT = ident


def plan(tier):
    n = 200 if tier == 'quick' else 4000
    return [dict(n=n) for _ in range(16)]


def is_kw(value, keywords, ignorecase):
    s = str(value)
    if ignorecase:
        return s.upper() in {k.upper() for k in keywords}
    return s in set(keywords)


_n = [0]


def check(rules, keywords, ic_directive, ic_parse, text, cache=None, history=None):
    """returns (detail|None, info)"""
    import tatsu
    rules = [(n, tup(x)) for n, x in rules]
    start = rules[0][0]
    # ic_parse: False = not given, True = ignorecase=True at parse time, 'off' = ignorecase=False at parse time (overrides the directive)
    ignorecase = False if ic_parse == 'off' else bool(ic_directive or ic_parse)
    directives = [('ignorecase', 'True')] if ic_directive else []
    rd = [dict(name=n, exp=x, decorators=(('name',) if n.lower() == 'ident' else ())) for n, x in rules]
    rd0 = [dict(name=n, exp=x) for n, x in rules]
    pkw = dict(ignorecase=False) if ic_parse == 'off' else dict(ignorecase=True) if ic_parse else {}
    info = {}
    if cache is not None and 'model' in cache:
        model, model0, gcls = cache['model'], cache['model0'], cache['gcls']
    else:
        _n[0] += 1
        gtext = tu.wrapped_text(grammar_text(rd, directives, keywords), start)
        gtext0 = tu.wrapped_text(grammar_text(rd0, directives, keywords), start)
        try:
            model = tatsu.compile(gtext, name=f'Vf11n{_n[0]}')
            model0 = tatsu.compile(gtext0, name=f'Vf11n{_n[0]}u')
        except Exception as e:
            return dict(bucket=f'compile:{type(e).__name__}', oracle='grammar compiles', observed=str(e)[:300], grammar=gtext), info
        gcls = None
        try:
            mod = tu.load_generated(tatsu.to_python_sourcecode(gtext, name=f'Vf11n{_n[0]}'), 'vf11gen')
            gcls = tu.find_parser_class(mod)
            if cache is not None:
                cache['mod'] = mod
        except Exception:
            gcls = None
        if cache is not None:
            cache.update(model=model, model0=model0, gcls=gcls)
    ref = Ref(rd, text, keywords=keywords, ignorecase=ignorecase)
    r = ref.parse(start)
    rr = None if r[0] == 'budget' else ('fail',) if r[0] == 'fail' else ('ok', r[1], tu.canon(r[2]))
    try:
        with watchdog(10):
            col = Collect()
            m = tu.parse_wrapped(model, text, semantics=col, **pkw)
            col0 = Collect()
            u = tu.parse_wrapped(model0, text, semantics=col0, **pkw)
            g = None
            if gcls is not None:
                colg = Collect()
                from vf.props.c03 import parse_gen
                # ONE generated-parser object per case, reused for every input (a parser object is meant to be reused); the settings may
                # change from one parse to the next.  In a replay the earlier parses of the case are made first.
                if cache is not None:
                    ginst = cache.get('ginst') or cache.setdefault('ginst', gcls())
                else:
                    ginst = gcls()
                    for ptext, picp in (history or []):
                        _gen(ginst, ptext, Collect(), dict(ignorecase=False) if picp == 'off' else dict(ignorecase=True) if picp else {})
                g = _gen(ginst, text, colg, pkw)
                if cache is not None:
                    cache.setdefault('ghist', []).append([text, ic_parse])
    except CaseTimeout:
        info['timeout'] = True
        return None, info
    kw_attempted = any(is_kw(v, keywords, ignorecase) for v in col0.seen)
    info.update(model=m[0], kw_attempted=kw_attempted)
    if m[0] == 'exc':
        return dict(bucket=f'exc:{m[1]}', oracle='the rejection is an ordinary parse failure', observed=m), info
    # direct assertion: the @name rule never hands out a keyword
    bad = [v for v in col.seen if is_kw(v, keywords, ignorecase)]
    if bad:
        return dict(bucket='keyword-accepted', oracle='an @name rule never succeeds with a keyword (case-insensitively under ignorecase)',
                    values=[tu.canon(v) for v in bad][:3], keywords=keywords, ignorecase=ignorecase), info
    if g is not None:
        badg = [v for v in colg.seen if is_kw(v, keywords, ignorecase)]
        if badg:
            return dict(bucket='generated:keyword-accepted', oracle='generated parser: an @name rule never succeeds with a keyword',
                        values=[tu.canon(v) for v in badg][:3], keywords=keywords, ignorecase=ignorecase), info
    # undecorated differential
    if not kw_attempted and (m[0] != u[0] or (m[0] == 'ok' and m != u)):
        return dict(bucket='decorator-changes-nonkeyword', oracle='values that are not keywords are accepted exactly as the undecorated rule accepts them',
                    decorated=m, undecorated=u), info
    # reference
    if rr is not None and not (set(ref.flags) & {'U2', 'U7', 'U11', 'U12', 'LR'}) and not ref.openlist_values:
        if rr[0] != m[0] or (rr[0] == 'ok' and rr[1] != m[1]):
            return dict(bucket='ref-accept', oracle='accept/reject agrees with RefPEG applying the documented keyword rule', expected=rr, observed=m,
                        keywords=keywords, ignorecase=ignorecase), info
        if rr[0] == 'ok' and not ref.flags and rr[2] != m[2]:
            return dict(bucket='ref-ast', oracle='AST agrees with RefPEG', expected=rr, observed=m), info
    # generated parser
    if g is not None and not _lastnode(rules):
        if g[0] == 'exc':
            return dict(bucket=f'generated:exc:{g[1]}', oracle='generated parser returns or fails with a parse error', observed=g, model=m), info
        if g[0] != m[0] or (g[0] == 'ok' and g != m):
            return dict(bucket='generated-vs-model', oracle='the generated parser treats keywords like the model', model=m, generated=g,
                        keywords=keywords, ignorecase=ignorecase), info
    return None, info


def _lastnode(rules):
    from vf.props.c02 import single_item
    return any((e[0] in ('named', 'namedl') and not single_item(e[2])) or (e[0] in ('ovr', 'ovrl') and not single_item(e[1]))
               for _, x in rules for e in walk(x))


def _gen(ginst, text, sem, pkw):
    from tatsu.exceptions import FailedParse, ParseException
    try:
        a = ginst.parse(text, start='VF_WRAP', semantics=sem, **pkw)
    except FailedParse as e:
        return ('fail', type(e).__name__, e.pos)
    except ParseException as e:
        return ('fail', type(e).__name__, -1)
    except RecursionError:
        return ('exc', 'RecursionError', '')
    except Exception as e:
        return ('exc', type(e).__name__, str(e)[:200])
    try:
        return ('ok', len(text) - len(a['rest']), tu.canon(a['v']))
    except Exception:
        return ('exc', 'wrapper', repr(a)[:200])


def make_case(rnd):
    gcfg = gen.GenCfg(cut=rnd.random() < 0.2, skipto=False)
    rules = gen.gen_rules(rnd, gcfg)
    body = rnd.choice(IDENT_BODIES)
    iname = 'IDENT' if rnd.random() < 0.3 else 'ident'   # an upper-case @name rule does not skip whitespace at its entry

    def sub(e):
        if e[0] == 'tok' and e[1] in ('a', 'b', 'c') and rnd.random() < 0.5:
            return ('call', iname)
        if e[0] == 'pat' and rnd.random() < 0.5:
            return ('call', iname)
        return replace_children(e, [sub(c) for c in children(e)])
    rules = [(n, sub(x)) for n, x in rules]
    if not any(e == ('call', iname) for _, x in rules for e in walk(x)):
        n0, x0 = rules[0]
        rules[0] = (n0, ('seq', (x0, ('star', ('call', iname)))))
    rules.append((iname, body))
    nk = rnd.randint(1, 3)
    keywords = rnd.sample(['a', 'ab', 'c', 'AB', 'b', 'abc', 'Ca'], nk)
    if rnd.random() < 0.25:
        # a long keyword list (printed and generated over several lines)
        letters = 'abc'
        extra = set()
        for _ in range(rnd.randint(8, 30)):
            extra.add(''.join(rnd.choice(letters) for _ in range(rnd.randint(3, 8))))
        keywords = keywords + sorted(extra - set(keywords))
        rnd.shuffle(keywords)
    ic_directive = rnd.random() < 0.3
    ic_parse = (not ic_directive) and rnd.random() < 0.25
    if rnd.random() < 0.15:
        ic_parse = 'off'       # an explicit ignorecase=False at parse time: the keywords count in the spelling they were declared in
    return rules, keywords, ic_directive, ic_parse


def run_shard(sh, n):
    def body(rnd):
        reset_tatsu_state()
        rules, keywords, icd, icp = make_case(rnd)
        cache = {}
        rmap = dict(rules)
        start = rules[0][0]
        pool = keywords * 3 + [k.upper() for k in keywords] + [k.lower() for k in keywords] + [k + 'a' for k in keywords] + ['b' + k for k in keywords] + WORDS
        for p in (r'[a-c]+', r'[a-cA-C]+', r'\w+', '@name'):
            gen.EXAMPLES[p] = pool
        gtext = grammar_text([dict(name=nm, exp=x, decorators=(('name',) if nm.lower() == 'ident' else ())) for nm, x in rules],
                             [('ignorecase', 'True')] if icd else [], keywords)
        try:
            for _ in range(5):
                lx = []
                for l in gen.derive(rnd, rmap, rmap[start]):
                    lx.append(l)
                # @name meta / token-choice bodies: derive gives tokens; sprinkle pool words in place of some identifiers
                text = gen.layout(rnd, lx, rnd.choice(['base', 'base', 'tight']))
                if rnd.random() < 0.3:
                    text = text + ' ' + rnd.choice(pool)
                icp0 = icp
                if rnd.random() < 0.35:
                    # this parse only: another ignorecase setting than the rest of the case (the objects are reused)
                    icp = rnd.choice([x for x in (False, True, 'off') if x != icp0 and not (icd and x is True)])
                hist = [list(h) for h in cache.get('ghist', [])]
                d, info = check(rules, keywords, icd, icp, text, cache)
                if 'model' not in cache:
                    if d is not None:
                        sh.fail(d['bucket'], dict(rules=rules, keywords=keywords, icd=icd, icp=icp, input=text), d)
                    return
                cls = [f'ident:{rules[-1][1][0]}', ('ignorecase:directive-overridden-off-at-parse' if icd else 'ignorecase:off-at-parse') if icp == 'off' else 'ignorecase:directive' if icd else 'ignorecase:parse' if icp else 'ignorecase:off', f'model:{info.get("model")}']
                if info.get('kw_attempted'):
                    cls.append('keyword-attempted')
                if icp != icp0:
                    cls.append('settings change between parses on one parser object')
                sh.case((gtext, icp, text), bool(info.get('kw_attempted')), cls, sample=dict(grammar=gtext, ignorecase_at_parse=icp, input=text))
                if d is not None:
                    sh.fail(d['bucket'], dict(rules=rules, keywords=keywords, icd=icd, icp=icp, input=text, history=hist), d)
                icp = icp0
        finally:
            if cache.get('mod') is not None:
                tu.unload(cache['mod'])
    hyp_run(sh, gen.rnds(), body, n)


def replay(case):
    d, _ = check(case['rules'], case['keywords'], case['icd'], case['icp'], case['input'], history=case.get('history'))
    return d


def shrink_candidates(case):
    rules = [(n, tup(x)) for n, x in case['rules']]
    text = case['input']
    for i in range(len(text)):
        yield dict(case, input=text[:i] + text[i + 1:])
    hist = case.get('history') or []
    for i in range(len(hist)):
        yield dict(case, history=hist[:i] + hist[i + 1:])
    kws = case['keywords']
    for i in range(len(kws)):
        if len(kws) > 1:
            yield dict(case, keywords=kws[:i] + kws[i + 1:])
    for r2 in shrink_rules(rules):
        if r2 and r2[0][0] == rules[0][0] and any(n.lower() == 'ident' for n, _ in r2):
            yield dict(case, rules=r2)


EXCLUSIONS = {}
