"""C02 — generated Python parsers behave identically to the grammar model (differential)."""
from __future__ import annotations

import ast as pyast

from vf import gen, tu
from vf.core import hyp_run, reset_tatsu_state, watchdog, CaseTimeout
from vf.gast import children, grammar_text, shrink_rules, tup, walk

PROPERTY = 'C02'
RULE = ('C01-style generated grammars (with cuts) extended with @@ directives (whitespace, nameguard, ignorecase, namechars, comments, '
        'eol_comments, parseinfo, left_recursion), rule parameters, an @name rule with keywords, upper-case rules and rule names that are '
        'Python keywords/builtins (if, class, None, print, match, type, list); x 5 inputs (derived sentences, near misses, soup) x parse-time '
        'settings {defaults, ignorecase, nameguard off, whitespace override, parseinfo} x semantics {none, tagging}; oracle: the generated '
        'source is valid Python (ast.parse + compile + exec) and NParser().parse == model.parse (equal canonical AST and consumed length, '
        'or both a parse failure). non-trivial = accepted by a side, or rejected after a terminal match, on a grammar with a '
        'name/optional/closure/choice/skip-to/directive/parameter; distinct = distinct (grammar, input, settings)')
ASSUMPTIONS = [
    'the model is the reference side (C01 judges it); error class and position are not compared',
    'CodegenError ("may repeat empty sequence") is an explicit refusal by the generator and is skipped (counted)',
]
BUDGET_S = {'quick': 150, 'thorough': 1500}

KEYWORDISH = ['if', 'class', 'None', 'print', 'match', 'type', 'list', 'import', 'def']

SETTINGS = [
    ('defaults', {}),
    ('ignorecase', dict(ignorecase=True)),
    ('nameguard-off', dict(nameguard=False)),
    ('ws-space', dict(whitespace=' ')),
    ('ws-none', dict(whitespace='')),
    ('parseinfo', dict(parseinfo=True)),
]

DIRECTIVES = [
    ('whitespace', "/[ \\t]+/"), ('whitespace', "/[ ]+/"), ('whitespace', "/[ \t]+/"), ('whitespace', "/[\t]+/"), ('nameguard', 'False'), ('nameguard', 'True'), ('ignorecase', 'True'),
    ('namechars', "'-'"), ('comments', "/\\(\\*.*?\\*\\)/"), ('eol_comments', "/#[^\\n]*/"), ('parseinfo', 'True'),
    ('left_recursion', 'False'), ('grammar', 'Foo'),
]


class Tagging:
    def _default(self, ast, *args, **kwargs):
        kwargs.pop('parseinfo', None)
        return ['T', ast, list(args), sorted(kwargs.items())]


_n = [0]


def build(rules, directives, keywords, ruleinfo):
    """rule dicts from (name, exp) + per-rule info (params, kwparams, decorators)"""
    rd = []
    for n, x in rules:
        d = dict(name=n, exp=x)
        d.update(ruleinfo.get(n, {}))
        rd.append(d)
    return grammar_text(rd, directives, keywords)


def pinfo_triples(x, out=None, depth=0):
    if out is None:
        out = []
    if depth > 100:
        return out
    if isinstance(x, dict):
        pi = x.get('parseinfo') or x.get('__parseinfo__')
        if pi is not None and hasattr(pi, 'rule'):
            out.append((pi.rule.rstrip('_'), pi.pos, pi.endpos))  # the generated parser appends _ to keyword-like rule names (documented)
        for k, v in x.items():
            if k not in ('parseinfo', '__parseinfo__'):
                pinfo_triples(v, out, depth + 1)
    elif isinstance(x, (list, tuple)):
        for v in x:
            pinfo_triples(v, out, depth + 1)
    return out


def run_side(f):
    from tatsu.exceptions import FailedParse, ParseException
    try:
        a = f()
    except FailedParse as e:
        return ('fail', type(e).__name__), None
    except ParseException as e:
        return ('fail', type(e).__name__), None
    except RecursionError:
        return ('exc', 'RecursionError', ''), None
    except Exception as e:
        return ('exc', type(e).__name__, str(e)[:200]), None
    return ('ok', tu.canon(a)), a


def check(gtext, start, text, settings, tagging, cache=None, direct=True, history=None):
    """returns (detail|None, info). cache: optional dict carrying (model, cls, mod)"""
    import tatsu
    from tatsu.exceptions import CodegenError
    info = {}
    own = None
    if cache and 'model' in cache:
        model, cls = cache['model'], cache['cls']
    else:
        _n[0] += 1
        name = f'Vf02n{_n[0]}'
        full = gtext + tu.WRAP % start
        try:
            model = tatsu.compile(full, name=name)
        except Exception as e:
            info['skip'] = f'model compile: {type(e).__name__}'
            return None, info
        try:
            src = tatsu.to_python_sourcecode(full, name=name)
        except CodegenError as e:
            info['skip'] = 'CodegenError'
            return None, info
        except Exception as e:
            return dict(bucket=f'codegen:{type(e).__name__}', oracle='code generation returns source (or refuses with CodegenError)',
                        observed=str(e)[:300]), info
        try:
            pyast.parse(src)
            own = tu.load_generated(src, 'vf02gen')
        except Exception as e:
            return dict(bucket=f'invalid-python:{type(e).__name__}', oracle='the generated source is valid Python and loads',
                        observed=str(e)[:300]), info
        cls = tu.find_parser_class(own)
        if cls is None:
            return dict(bucket='no-parser-class', oracle='generated module defines <Name>Parser', observed=sorted(vars(own))[:20]), info
        if cache is not None:
            cache.update(model=model, cls=cls, mod=own)
            own = None
    try:
        kw = dict(settings)
        # one generated-parser object serves all the parses of a case (after failures, with other settings before): the model builds a
        # fresh context per parse, a parser object must behave as if it did
        if cache is not None:
            inst = cache.setdefault('inst', cls())
            cache.setdefault('hist', []).append((text, dict(settings), tagging))
        else:
            inst = cls()
            for ptext, pkw, ptag in (history or []):
                try:
                    with watchdog(10):
                        run_side(lambda: inst.parse(ptext, start='VF_WRAP', semantics=Tagging() if ptag else None, **pkw))
                except CaseTimeout:
                    pass
        try:
            with watchdog(10):
                m, ma = run_side(lambda: model.parse(text, start='VF_WRAP', semantics=Tagging() if tagging else None, **kw))
                g, ga = run_side(lambda: inst.parse(text, start='VF_WRAP', semantics=Tagging() if tagging else None, **kw))
        except CaseTimeout:
            info['skip'] = 'timeout'
            return None, info
        info['model'] = m[0]
        if direct:
            # also through the public start-rule routes: start=<rule> and the default (first rule)
            for skw in (dict(start=start), {}):
                dm, _ = run_side(lambda: model.parse(text, semantics=Tagging() if tagging else None, **skw, **kw))
                dg, _ = run_side(lambda: cls().parse(text, semantics=Tagging() if tagging else None, **skw, **kw))
                if dm[0] == 'exc' and dg[0] == 'exc' and dm[1] == dg[1]:
                    continue
                if dm[0] != dg[0] or (dm[0] == 'ok' and dm != dg):
                    return dict(bucket=f'start-route:{"start=" if skw else "default"}', oracle='generated parser agrees with the model when '
                                'started by name / by default', model=dm, generated=dg, start=start), info
        if m[0] == 'exc' and g[0] == 'exc' and m[1] == g[1]:
            info['skip'] = f'both raise {m[1]}'   # C08's subject, not a difference
            return None, info
        if m[0] != g[0]:
            return dict(bucket=f'accept:{m[0]}-vs-{g[0]}', oracle='generated parser accepts exactly what the model accepts', model=m, generated=g), info
        if m[0] == 'ok' and m[1] != g[1]:
            return dict(bucket='ast', oracle='generated parser returns an equal AST', model=m, generated=g), info
        if m[0] == 'ok':
            # with parseinfo=True as a setting or as the @@parseinfo directive (and equally none without)
            a, b = sorted(pinfo_triples(ma)), sorted(pinfo_triples(ga))
            if a != b:
                return dict(bucket='parseinfo', oracle='equal (rule, pos, endpos) parseinfo triples on both sides', model=a[:8], generated=b[:8]), info
            if a:
                info['parseinfo'] = True
        return None, info
    finally:
        if own is not None:
            tu.unload(own)


FEATURES = {'named', 'namedl', 'ovr', 'ovrl', 'opt', 'star', 'plus', 'join', 'alt', 'skipto'}


def make_case(rnd):
    gcfg = gen.GenCfg(cut=rnd.random() < 0.5)
    rules = gen.gen_rules(rnd, gcfg)
    directives, keywords, ruleinfo = [], [], {}
    # keyword-like rule names
    ren = {}
    if rnd.random() < 0.35:
        for n, _ in rules[1:] if rnd.random() < 0.7 else rules:
            if rnd.random() < 0.6:
                ren[n] = rnd.choice([k for k in KEYWORDISH if k not in ren.values()])
    elif len(rules) >= 2 and rnd.random() < 0.15:
        # underscore variants of the start rule's name: the generated parser must still start from (and call) the right method
        base = rules[0][0]
        ren = {rules[1][0]: rnd.choice(['_' + base, base + '_' if base not in KEYWORDISH else '_' + base, '_' + base + '_'])}
        ren = {k: v for k, v in ren.items() if v not in [n for n, _ in rules]}
    if ren:

        def rn(e):
            from vf.gast import replace_children
            if e[0] == 'call':
                return ('call', ren.get(e[1], e[1]))
            return replace_children(e, [rn(c) for c in children(e)])
        rules = [(ren.get(n, n), rn(x)) for n, x in rules]
    if rnd.random() < 0.5:
        for _ in range(rnd.randint(1, 2)):
            d = rnd.choice(DIRECTIVES)
            if d[0] not in [x[0] for x in directives]:
                directives.append(d)
    if rnd.random() < 0.3:
        n = rnd.choice(rules)[0]
        ruleinfo.setdefault(n, {})['params'] = tuple(rnd.choice([('Tp',), ('Tp', 'x'), (7,), ('a b',), ('Tp::Base',), ('Tp::B1::B2', 'y')]))
        if rnd.random() < 0.5:
            # (a keyword parameter may be spelled like a Python keyword: the generated decorator must still be valid Python)
            ruleinfo[n]['kwparams'] = {rnd.choice(['k', 'k', 'if', 'class', 'k2']): rnd.choice(['v', 3])}
    if rnd.random() < 0.25:
        # an @name rule and keywords
        keywords = rnd.sample(['a', 'b', 'ab', 'c'], 2)
        rules = rules + [('ident', ('pat', '[a-c]+'))]
        ruleinfo['ident'] = dict(decorators=(rnd.choice(['name', 'name', 'isname']),))     # (both spellings are in the grammar language)
        n0, x0 = rules[0]
        rules[0] = (n0, ('alt', (x0, ('call', 'ident'))))
    if rnd.random() < 0.15:
        # a token spelled like a Python constant (the generator renders unset patterns with repr)
        word = rnd.choice(['None', 'True'])

        def rt(e):
            from vf.gast import replace_children
            if e[0] == 'tok' and e[1] == 'c':
                return ('tok', word)
            return replace_children(e, [rt(c) for c in children(e)])
        rules = [(n, rt(x)) for n, x in rules]
    if rnd.random() < 0.15 and len(rules) >= 2:
        # a based rule: child < base  (documented as: base's expression followed by the child's)
        n, x = rules[-1]
        rules = rules[:-1] + [('bs', gen.gen_exp(rnd, gen.GenCfg(), 1, [], []))] + [rules[-1]]
        ruleinfo.setdefault(n, {})['base'] = 'bs'
        if rnd.random() < 0.5:
            # repeated inheritance: child < bs2 < bs (each link adds its own part after everything inherited)
            rules = rules[:-1] + [('bs2', gen.gen_exp(rnd, gen.GenCfg(), 1, [], []))] + [rules[-1]]
            ruleinfo['bs2'] = dict(base='bs')
            ruleinfo[n]['base'] = 'bs2'
    if rnd.random() < 0.15 and len(rules) >= 2:
        # a rule include: >rule splices the right-hand side of an earlier rule
        n, x = rules[-1]
        rules = [rules[-1]] + rules[:-1]
        n0, x0 = rules[1]
        rules[1] = (n0, ('seq', (('inc', n), x0)))
        start_ = rules[1][0]
        return rules, directives, keywords, ruleinfo, start_
    start = rules[0][0]
    return rules, directives, keywords, ruleinfo, start


def plan(tier):
    n = 250 if tier == 'quick' else 4000
    return [dict(n=n, index=i) for i in range(16)]


def scope_templates():
    """EXHAUSTIVE family for the scopes in which names are pre-defined: a body B with two differently named parts, under a wrapper W, at a
    position P of a rule.  The model pre-defines every name of the option being parsed; the generated parser must define the same keys."""
    x, y = ('tok', 'x'), ('tok', 'y')
    bodies = {
        'alt(a:x|b:y)': ('alt', (('named', 'a', x), ('named', 'b', y))),
        'alt(a:x|b+:y)': ('alt', (('named', 'a', x), ('namedl', 'b', y))),
        'seq(a:x [b:y])': ('seq', (('named', 'a', x), ('opt', ('named', 'b', y)))),
        'alt(a:x z|b:y)': ('alt', (('seq', (('named', 'a', x), ('tok', 'z'))), ('named', 'b', y))),
        'alt(a:x|(b:y|c:z))': ('alt', (('named', 'a', x), ('grp', ('alt', (('named', 'b', y), ('named', 'c', ('tok', 'z'))))))),
        'a:(x|y)': ('named', 'a', ('alt', (x, y))),
    }
    wrappers = {
        'none': lambda b: b, 'opt': lambda b: ('opt', b), 'grp': lambda b: ('grp', b), 'star': lambda b: ('star', b), 'plus': lambda b: ('plus', b),
        'opt-grp': lambda b: ('opt', ('grp', b)), 'join': lambda b: ('join', ('tok', ','), b, False, False), 'gather+': lambda b: ('join', ('tok', ','), b, True, True),
        'opt-opt': lambda b: ('opt', ('opt', b)),
    }
    positions = {
        'whole-body': lambda e: [('start', e)],
        'first-of-seq': lambda e: [('start', ('seq', (e, ('tok', ';'))))],
        'second-of-seq': lambda e: [('start', ('seq', (('tok', '<'), e)))],
        'option-of-choice': lambda e: [('start', ('alt', (e, ('named', 'q', ('tok', 'q')))))],
        'second-option': lambda e: [('start', ('alt', (('named', 'q', ('tok', 'q')), e)))],
        'called-rule': lambda e: [('start', ('seq', (('named', 'r', ('call', 'sub')), ('tok', ';')))), ('sub', e)],
    }
    inputs = ['x', 'y', '', 'x z', 'z', 'x y', 'x,y', 'y,x', 'q', 'x x']
    for bn, b in bodies.items():
        for wn, w in wrappers.items():
            for pn, pos in positions.items():
                rules = pos(w(b))
                texts = []
                for t in inputs:
                    t2 = ('< ' + t) if pn == 'second-of-seq' else (t + ' ;') if pn in ('first-of-seq', 'called-rule') else t
                    texts.append(t2)
                yield f'{bn} / {wn} / {pn}', rules, texts


def run_templates(sh, index, nshards):
    """every scope template (no random choice): model vs generated parser on a fixed battery, default settings, with and without tagging"""
    n = 0
    complete = True
    for k, (label, rules, texts) in enumerate(scope_templates()):
        if k % nshards != index:
            continue
        if sh.out_of_budget():
            complete = False
            break
        reset_tatsu_state()
        gtext = build(rules, [], [], {})
        cache = {}
        try:
            for text in texts:
                for tagging in (False, True):
                    d, info = check(gtext, 'start', text, {}, tagging, cache)
                    if info.get('skip'):
                        sh.note('skipped: ' + info['skip'])
                        continue
                    n += 1
                    sh.case((gtext, text, 'templates', tagging), info.get('model') in ('ok', 'fail'), ['scope-template', 'scope-template:' + label.split(' / ')[1],
                            'scope-position:' + label.split(' / ')[2], f'model:{info.get("model")}'], sample=dict(template=label, grammar=gtext, input=text, tagging=tagging))
                    if d is not None:
                        sh.fail(d['bucket'], dict(rules=rules, directives=[], keywords=[], ruleinfo={}, start='start', input=text, settings={}, tagging=tagging,
                                                  history=[list(h) for h in cache.get('hist', [])[:-1]]), d)
        finally:
            if cache.get('mod') is not None:
                tu.unload(cache['mod'])
    sh.exhaustive['scope templates: 6 bodies x 9 wrappers x 6 positions x 10 inputs x {no semantics, tagging}'] = complete


def run_shard(sh, n, index=0):
    run_templates(sh, index, 16)

    def body(rnd):
        reset_tatsu_state()
        rules, directives, keywords, ruleinfo, start = make_case(rnd)
        gtext = build(rules, directives, keywords, ruleinfo)
        cache = {}
        rmap = dict(rules)
        texts = gen.gen_inputs(rnd, rules, start, 5)
        types = set()
        for _, x in rules:
            types |= {y[0] for y in walk(x)}
        feat = bool(types & FEATURES) or bool(directives) or bool(ruleinfo)
        try:
            for i, text in enumerate(texts):
                for sname, st in ([SETTINGS[0]] + [rnd.choice(SETTINGS[1:])]):
                    tagging = rnd.random() < 0.3
                    if rnd.random() < 0.3:
                        text2 = text.upper() if sname == 'ignorecase' else text
                    else:
                        text2 = text
                    d, info = check(gtext, start, text2, st, tagging, cache)
                    if info.get('skip'):
                        sh.note('skipped: ' + info['skip'])
                        if 'model' not in cache:
                            return
                        continue
                    cls = [f'settings:{sname}', 'tagging' if tagging else 'no-semantics', f'model:{info.get("model")}']
                    cls += [f'directive:{d_[0]}' for d_ in directives]
                    if keywords:
                        cls.append('keywords+@name')
                    if info.get('parseinfo'):
                        cls.append('parseinfo-compared')
                    if ruleinfo:
                        cls.append('rule-params')
                    if any(n in KEYWORDISH for n, _ in rules):
                        cls.append('keywordish-rule-name')
                    sh.case((gtext, text2, sname, tagging), feat and info.get('model') in ('ok', 'fail'), cls,
                            sample=dict(grammar=gtext, input=text2, settings=sname, tagging=tagging))
                    if d is not None:
                        sh.fail(d['bucket'], dict(rules=rules, directives=directives, keywords=keywords, ruleinfo=ruleinfo, start=start,
                                                  input=text2, settings=st, tagging=tagging, history=[list(h) for h in cache.get('hist', [])[:-1]]), d)
                        if d['bucket'].startswith(('codegen', 'invalid-python', 'no-parser')):
                            return
        finally:
            if cache.get('mod') is not None:
                tu.unload(cache['mod'])
    hyp_run(sh, gen.rnds(), body, n)


def _norm(case):
    rules = [(n, tup(x)) for n, x in case['rules']]
    directives = [tuple(d) for d in case.get('directives', [])]
    ruleinfo = {}
    for n, info in (case.get('ruleinfo') or {}).items():
        ruleinfo[n] = {k: (tuple(v) if isinstance(v, list) else v) for k, v in info.items()}
    return rules, directives, list(case.get('keywords', [])), ruleinfo


def replay(case):
    rules, directives, keywords, ruleinfo = _norm(case)
    gtext = build(rules, directives, keywords, ruleinfo)
    d, _ = check(gtext, case['start'], case['input'], case.get('settings') or {}, case.get('tagging', False), history=case.get('history'))
    return d


def shrink_candidates(case):
    rules, directives, keywords, ruleinfo = _norm(case)
    text = case['input']
    for i in range(len(text)):
        yield dict(case, input=text[:i] + text[i + 1:])
    hist = case.get('history') or []
    if hist:
        yield dict(case, history=[])
        for i in range(len(hist)):
            yield dict(case, history=hist[:i] + hist[i + 1:])
    if case.get('tagging'):
        yield dict(case, tagging=False)
    if case.get('settings'):
        yield dict(case, settings={})
    for i in range(len(directives)):
        yield dict(case, directives=directives[:i] + directives[i + 1:])
    if keywords:
        yield dict(case, keywords=[])
    for n in list(ruleinfo):
        yield dict(case, ruleinfo={k: v for k, v in ruleinfo.items() if k != n})
    for r2 in shrink_rules(rules):
        if r2 and r2[0][0] == case['start']:
            names = {n for n, _ in r2}
            yield dict(case, rules=r2, ruleinfo={k: v for k, v in ruleinfo.items() if k in names})


SINGLE = {'tok', 'pat', 'call', 'const', 'dot', 'star', 'plus', 'join', 'empty', 'meta'}


def single_item(e):
    """the expression certainly contributes exactly one item when it succeeds"""
    k = e[0]
    if k in SINGLE:
        return True
    if k in ('grp',):
        return single_item(e[1])
    if k == 'alt':
        return all(single_item(x) for x in e[1])
    if k in ('named', 'namedl'):
        return single_item(e[2])
    if k == 'seq':
        return len(e[1]) == 1 and single_item(e[1][0])
    return False


def _f_c02_a(case, detail):
    """generated parser only: name= / name+= / @: / @+: bind state.last_node; when the operand does not yield exactly
    one item (a group of several elements, an optional that misses, (), lookaheads, $, (?:x)) the bound value differs"""
    b = detail.get('bucket', '')
    if b.startswith('start-route'):
        if not (detail.get('model', [''])[0] == 'ok' and detail.get('generated', [''])[0] == 'ok'):
            return False
    elif b not in ('ast', 'parseinfo'):
        return False
    rules, _, _, _ = _norm(case)
    for _, x in rules:
        for e in walk(x):
            if e[0] in ('named', 'namedl') and not single_item(e[2]):
                return True
            if e[0] in ('ovr', 'ovrl') and not single_item(e[1]):
                return True
    return False


def _f_c02_i(case, detail):
    """a verbose (?x) pattern that contains newlines or tabs: the generated source writes them as escapes"""
    rules, _, _, _ = _norm(case)
    return any(e[0] == 'pat' and '(?x' in e[1] and any(c in e[1] for c in '\n\r\t\v\f') for _, x in rules for e in walk(x))


EXCLUSIONS = {'F-C02-a': _f_c02_a, 'F-C02-i': _f_c02_i}
