"""C05 — a cut commits within its documented scope and nowhere else.

Domain: cut-free grammar G0 from C01's generator, G = G0 with 1-3 cuts inserted.
Oracles: (a) RefPEG with cut; (b) metamorphic, reference-free: G accepts t => G0 accepts t
with the same result; (c) locality: W: t=<target> | f=REST always succeeds and takes f exactly
when parsing from <target> fails.
"""
from __future__ import annotations

from vf import gen, tu
from vf.core import hyp_run, reset_tatsu_state, watchdog, CaseTimeout
from vf.gast import grammar_text, shrink_rules, tup, walk
from vf.props import c01

PROPERTY = 'C05'
RULE = ('cut-free 1-3 rule grammars (C01 generator) with 1-3 cuts inserted at random sequence positions (options, optionals, '
        'closure/join bodies, nested choices in groups, rule bodies; not under !e / ->e where a cut is not monotone); inputs: '
        'sentences derived from the grammar, the same sentences corrupted at the lexeme right after a passed cut, near misses. '
        'non-trivial = the reference trace shows a failure after an executed cut in the same scope; classes by construct '
        '(option / optional / closure iteration 1 / iteration >= 2 / join after separator / rule-level option); '
        'the generated parser must accept and consume what the model does (templates: always; random: half); every case is also parsed with prune_memos_on_cut=False and perlinememos=0.01 (same outcome required); distinct = distinct (grammar, input)')
ASSUMPTIONS = [
    'a cut written directly in a plain group without a choice, or inside a lookahead, is flagged U7 (docs and engine differ) and only the metamorphic and locality oracles judge it',
] + c01.ASSUMPTIONS
BUDGET_S = {'quick': 300, 'thorough': 1500}

LOCAL = "\nVF_LOC: t=%s | f=VF_REST ;\n"


def plan(tier):
    n = 150 if tier == 'quick' else 3500
    return [dict(kind='random', n=n) for _ in range(12)] + [dict(kind='templates', index=i, nshards=6, maxlen=4 if tier == 'quick' else 5) for i in range(6)]


def templates():
    """a systematic family: an inner choice with a cut in its i-th alternative, wrapped in a group / optional / closure /
    nothing, followed by a tail token, as the first or second option of an outer choice whose other option shares the prefix"""
    A, B, C, D = ('tok', 'a'), ('tok', 'b'), ('tok', 'c'), ('tok', 'd')
    cutalt = ('seq', (A, ('cut',), B))
    inners = {
        'only': [cutalt],
        'first': [cutalt, ('tok', 'x')],
        'last': [('tok', 'x'), cutalt],
        'middle': [('tok', 'x'), cutalt, ('seq', (A, D))],
    }
    for iname, alts in inners.items():
        inner = alts[0] if len(alts) == 1 else ('alt', tuple(alts))
        for wname, wrap in (('grp', lambda e: ('grp', e)), ('opt', lambda e: ('opt', e)), ('star', lambda e: ('star', e)),
                            ('plus', lambda e: ('plus', e)), ('named', lambda e: ('named', 'n', ('grp', e))), ('rule', None),
                            # an optional directly around a closure / optional / join (the wrappers Optional.optimized() may drop), cut inside a group
                            ('opt-star', lambda e: ('opt', ('star', ('grp', e)))), ('opt-opt', lambda e: ('opt', ('opt', ('grp', e)))),
                            ('opt-star-seq', lambda e: ('opt', ('star', ('seq', (('tok', 'd'), ('grp', e)))))),
                            ('opt-join', lambda e: ('opt', ('join', ('tok', 'd'), ('grp', e), False, False)))):
            for tail in (C, None, ('seq', (A, C))):
                for order in ('cut-first', 'cut-second'):
                    rules = []
                    if wrap is None:
                        first = ('call', 'r1')
                        rules.append(('r1', inner))
                    else:
                        first = wrap(inner)
                    opt1 = ('seq', (first, tail)) if tail else first
                    opt2 = ('seq', (A, B, D))
                    opt3 = ('seq', (A, D))
                    body = ('alt', (opt1, opt2, opt3)) if order == 'cut-first' else ('alt', (opt3, opt1, opt2))
                    yield f'{iname}/{wname}/{"notail" if tail is None else "tail" if tail == C else "tail-ac"}/{order}', [('start', body)] + rules


def history_templates():
    """a path tried earlier passes a cut further into the input and fails; after backtracking a cut at a smaller position must still commit"""
    A, B, C, D = ('tok', 'a'), ('tok', 'b'), ('tok', 'c'), ('tok', 'd')
    late = ('seq', (A, B, ('cut',), C))                       # cut after two lexemes
    early = ('alt', (('seq', (A, ('cut',), C)), ('seq', (A, B, D))))    # cut after one lexeme, then an alternative that would match 'a b d'
    yield 'hist/rules-in-choice', [('start', ('alt', (('call', 'r1'), ('call', 'r2')))), ('r1', late), ('r2', early)]
    yield 'hist/optional-then-rule', [('start', ('seq', (('opt', ('call', 'r1')), ('call', 'r2')))), ('r1', late), ('r2', early)]
    yield 'hist/closure-then-rule', [('start', ('seq', (('star', ('call', 'r1')), ('call', 'r2')))), ('r1', late), ('r2', early)]
    yield 'hist/lookahead-then-rule', [('start', ('seq', (('not', ('call', 'r1')), ('call', 'r2')))), ('r1', late), ('r2', early)]
    yield 'hist/inline', [('start', ('alt', (('seq', (('grp', ('alt', (late, ('seq', (A, B, B))))), D)), ('grp', early))))]
    yield 'hist/three-rules', [('start', ('alt', (('seq', (('call', 'r1'), D)), ('seq', (('call', 'r2'), D)), ('call', 'r3')))), ('r1', late), ('r2', early),
                               ('r3', ('alt', (('seq', (A, B, ('cut',), D, D)), ('seq', (A, B, D)))))]


def run_shard(sh, kind, **kw):
    if kind == 'templates':
        return run_templates(sh, **kw)
    return run_random(sh, **kw)


def run_templates(sh, index, nshards, maxlen):
    import itertools
    complete = True
    import itertools as _it
    for k, (name, rules) in enumerate(_it.chain(templates(), history_templates())):
        if k % nshards != index:
            continue
        reset_tatsu_state()
        start = 'start'
        rules0 = [(n, gen.strip_cuts(x)) for n, x in rules]
        g = tu.compile_grammar(tu.wrapped_text(grammar_text(rules), start) + LOCAL % start)
        g0 = tu.compile_grammar(tu.wrapped_text(grammar_text(rules0), start))
        gcls = genparser(tu.wrapped_text(grammar_text(rules), start) + LOCAL % start)
        gtext = grammar_text(rules)
        for L in range(0, maxlen + 1):
            for t in itertools.product('abcd', repeat=L):
                if sh.out_of_budget():
                    complete = False
                    break
                text = ' '.join(t)
                d, info = check(rules, start, text, (g, g0, gcls))
                cf = info.get('cutfails', [])
                sh.case((gtext, text), bool(cf), ['template:' + name.split('/')[1], 'template'] + [f'cutfail:{c}' for c in cf],
                        sample=dict(grammar=gtext, input=text, cutfails=cf))
                if d is not None:
                    sh.fail(d['bucket'], dict(rules=rules, start=start, input=text), d)
    sh.exhaustive[f'cut-scope template family x all strings over {{a,b,c,d}} up to {maxlen} lexemes'] = complete


_gcount = [0]


def genparser(gtext):
    """the generated parser for a wrapped grammar text, or None (code generation problems are C02's subject)"""
    import tatsu
    _gcount[0] += 1
    try:
        src = tatsu.to_python_sourcecode(gtext, name=f'Vf05x{_gcount[0]}')
        mod = tu.load_generated(src, 'vf05gen')
        cls = tu.find_parser_class(mod)
        tu.unload(mod)
        return cls
    except Exception:
        return None


def corrupt_after_cut(rnd, lexs, marks):
    out = []
    for m in marks:
        if m < len(lexs):
            l2 = list(lexs)
            if rnd.random() < 0.5:
                l2[m] = gen.Lex(rnd.choice(['c', 'b', ',', 'x', '1']), l2[m].glue)
            else:
                del l2[m]
            out.append(l2)
    return out


def check(rules, start, text, models=None):
    """returns (detail|None, info)"""
    rules = [(n, tup(x)) for n, x in rules]
    rules0 = [(n, gen.strip_cuts(x)) for n, x in rules]
    if models is None:
        try:
            g = tu.compile_grammar(tu.wrapped_text(grammar_text(rules), start) + LOCAL % start)
            g0 = tu.compile_grammar(tu.wrapped_text(grammar_text(rules0), start))
        except Exception as e:
            return dict(bucket=f'compile:{type(e).__name__}', oracle='a printed valid grammar must compile', observed=str(e)[:300]), {}
        gcls = genparser(tu.wrapped_text(grammar_text(rules), start) + LOCAL % start)
    else:
        g, g0, gcls = models if len(models) == 3 else (*models, None)
    # (a) reference
    d, info = c01.compare(rules, start, text, g)
    if d is not None:
        d = dict(d, bucket='ref-' + d['bucket'])
        return d, info
    # (b) metamorphic
    try:
        with watchdog(10):
            a = tu.parse_wrapped(g, text)
            b = tu.parse_wrapped(g0, text)
            # (d) a cut commits the same way whatever the memo settings (they only say what is cached and pruned)
            for sname, skw in (('prune_memos_on_cut=False', dict(prune_memos_on_cut=False)), ('perlinememos=0.01', dict(perlinememos=0.01))):
                a2 = tu.parse_wrapped(g, text, **skw)
                if a2[:2] != a[:2] or (a[0] == 'ok' and a2 != a):
                    return dict(bucket='settings:' + sname, oracle='the scope of a cut does not depend on memo settings', default=a, variant=a2, settings=skw), info
            # (e) the generated parser commits where the model commits (acceptance and consumed length; values are C02's subject)
            if gcls is not None:
                gp = tu.parse_wrapped(gcls(), text)
                if gp[0] != 'exc' and (gp[0] != a[0] or (a[0] == 'ok' and gp[1] != a[1])):
                    return dict(bucket='generated-parser', oracle='a cut commits in the generated parser exactly where it commits in the model', model=a, generated=gp), info
            # (c) locality
            loc = tu.outcome(lambda: g.parse(text, start='VF_LOC'))
            direct = tu.outcome(lambda: g.parse(text, start=start))
    except CaseTimeout:
        return dict(bucket='no-result', oracle='parse terminates', observed='no result within 10 s'), info
    info['accepted_with_cut'] = a[0] == 'ok'
    from vf.refpeg import Ref
    ref = Ref(rules, text)
    rr = ref.parse(start)
    info['cutfails'] = sorted(set(ref.cutfails))
    if rr[0] != 'budget' and not ref.cutfails and not (set(ref.flags) & c01.ACCEPT_FLAGS):
        # no failure happened after an executed cut (by the reference's trace): the cuts must be invisible
        # (the AST is compared only where the reference raised no unspecified-flag, e.g. U1 names of a lone closure)
        if a[:1] != b[:1] or (a[0] == 'ok' and (a[:2] != b[:2] or (not ref.flags and a != b))):
            return dict(bucket='metamorphic', oracle='when no failure follows an executed cut, G and G0 (cuts removed) give the same result',
                        with_cuts=a, without_cuts=b), info
    if loc[0] != 'ok':
        return dict(bucket='locality-fails', oracle='W: t=<target> | f=REST always succeeds (an outer choice still backtracks)',
                    observed=loc, direct=direct), info
    took_f = isinstance(loc[1], dict) and 'f' in loc[1]
    if took_f != (direct[0] != 'ok'):
        return dict(bucket='locality', oracle='the wrapper takes f exactly when the target rule fails', wrapper=loc, direct=direct), info
    if not took_f and direct[0] == 'ok' and loc[1].get('t') != direct[1]:
        return dict(bucket='locality-value', oracle='the wrapper returns the target value', wrapper=loc, direct=direct), info
    return None, info


def run_random(sh, n):
    gcfg = gen.GenCfg(cut=False)

    def body(rnd):
        reset_tatsu_state()
        rules0 = gen.gen_rules(rnd, gcfg)
        rules = gen.insert_cuts(rnd, rules0, 3)
        if rules is None:
            sh.note('no cut site')
            return
        start = rules[0][0]
        try:
            g = tu.compile_grammar(tu.wrapped_text(grammar_text(rules), start) + LOCAL % start)
            g0 = tu.compile_grammar(tu.wrapped_text(grammar_text(rules0), start))
            gcls = genparser(tu.wrapped_text(grammar_text(rules), start) + LOCAL % start) if rnd.random() < 0.5 else None
        except Exception as e:
            sh.fail(f'compile:{type(e).__name__}', dict(rules=rules, start=start, input=''), dict(bucket=f'compile:{type(e).__name__}', observed=str(e)[:300]))
            return
        rmap = dict(rules)
        texts = []
        for _ in range(3):
            marks = []
            lx = gen.derive(rnd, rmap, rmap[start], marks=marks)
            texts.append(gen.layout(rnd, lx, rnd.choice(['base', 'tight'])))
            for l2 in corrupt_after_cut(rnd, lx, marks)[:3]:
                texts.append(gen.layout(rnd, l2, 'base'))
        texts.append(gen.layout(rnd, gen.near_miss(rnd, gen.derive(rnd, rmap, rmap[start])), 'base'))
        texts.append(gen.soup(rnd))
        gtext = grammar_text(rules)
        for text in dict.fromkeys(texts):
            d, info = check(rules, start, text, (g, g0, gcls))
            cf = info.get('cutfails', [])
            cls = [f'cutfail:{c}' for c in cf] + (['generated-parser compared'] if gcls is not None else [])
            cls += [f'flag:{f}' for f in info.get('flags', [])]
            cls.append('accepted' if info.get('accepted_with_cut') else 'rejected')
            sh.case((gtext, text), bool(cf), cls, sample=dict(grammar=gtext, input=text, cutfails=cf))
            for f in info.get('flags', []):
                sh.flag(f)
            if d is not None:
                sh.fail(d['bucket'], dict(rules=rules, start=start, input=text), d)
    hyp_run(sh, gen.rnds(), body, n)


def replay(case):
    d, _ = check(case['rules'], case['start'], case['input'])
    return d


def shrink_candidates(case):
    rules = [(n, tup(x)) for n, x in case['rules']]
    text = case['input']
    for i in range(len(text)):
        yield dict(case, input=text[:i] + text[i + 1:])
    for r2 in shrink_rules(rules):
        if r2[0][0] == case['start'] and any(x[0] == 'cut' for _, e in r2 for x in walk(e)):
            yield dict(case, rules=r2)


def _f_c05_a(case, detail):
    """a cut inside a closure/join body is forgotten from the second iteration on: only the reference oracle
    sees it (TatSu accepts / continues where the docs say the repetition fails), and the grammar has a cut inside
    a closure or join body"""
    if not detail.get('bucket', '').startswith('ref-'):
        return False
    rules = [(n, tup(x)) for n, x in case['rules']]

    def cut_in_closure(e, inclosure=False):
        if e[0] == 'cut' and inclosure:
            return True
        from vf.gast import children
        return any(cut_in_closure(c, inclosure or e[0] in ('star', 'plus', 'join')) for c in children(e))
    if not any(cut_in_closure(x) for _, x in rules):
        return False
    from vf.refpeg import Ref
    ref = Ref(rules, case['input'])
    ref.parse(case['start'])
    return 'closure-iterN' in ref.cutfails or 'join-after-sep' in ref.cutfails


def _f_c01_a(case, detail):
    if detail.get('bucket') != 'ref-ast':
        return False
    return c01._f_c01_a(dict(case, kind='ref'), dict(detail, bucket='ast'))


EXCLUSIONS = {'F-C05-a': _f_c05_a, 'F-C01-a': _f_c01_a}
