"""C15 — the shipped bootstrap parser agrees with the shipped TatSu grammar (four-way differential)."""
from __future__ import annotations

import os

from vf import gen, tu
from vf.core import hyp_run, reset_tatsu_state, watchdog, CaseTimeout
from vf.gast import grammar_text
from vf.props import c08, c13

PROPERTY = 'C15'
RULE = ('grammar texts: printer output over the full language (C13 generator: directives, keywords, parameters, based rules, decorators, '
        'special tokens/patterns/constants, alerts, meta, $->, cuts, joins, includes), hand-written texts for the deprecated and alternative '
        'forms (?/../?, >>, (* *), = ... ; EBNF style, left/right joins, ::Type parameters, name:e, escaped quotes, ?\'..\' regexes), the '
        'repository\'s grammar files, and invalid texts obtained from all of them by 1-3 edits. Each text is parsed by P1 = tatsu.boot.bootstrap.'
        'TatSuBootstrapParser, P2 = tatsu.boot.bootparser.GRAMMAR_MODEL, P3 = tatsu.compile(tatsu/_tatsu.ebnf) and P4 = exec(pythongen(P3)), '
        'all with GrammarSemantics: same accept/reject, and equal grammar models on accept (canonical structure and pretty()). The set of '
        '_tatsu.ebnf productions exercised by accepted texts is recorded. non-trivial = accepted, or within 3 edits of an accepted text and '
        'rejected after offset 0; distinct = distinct text')
ASSUMPTIONS = ['equality of grammar models is structural (my canonical walk over public fields) plus equal pretty() text']
BUDGET_S = {'quick': 180, 'thorough': 1800}

HAND = [
    "start = 'a' ;\nb = 'c' ;\n",
    "start ::= 'a' | 'b' ;\n",
    "start: ?/a+/? 'x' ;\n",
    "start: 'a' >> 'b' ;\n",
    "(* comment *)\nstart: 'a' ; (* more *)\n",
    "/* c */ start: 'a' // eol\n  'b' # other\n ;\n",
    "start: '+'<{/\\d+/}+ ;\n",
    "start: '+'>{/\\d+/}+ ;\n",
    "start::Type: 'a' ;\n",
    "start::Type::Base: x:'a' y+:'b' ;\n",
    "start(Type, k=1): 'a' ;\n",
    "start[Type, 'x y', 7]: 'a' ;\n",
    "start: 'it\\'s' \"say \\\"hi\\\"\" ;\n",
    "start: 'a' ?'x+' ?\"y+\" ;\n",
    "start: r'raw\\n' 'tab\\t' ;\n",
    "start: '''multi\n   line''' ;\n",
    "start: x='a' {y+='b'}* [z='c'] ;\n",
    "start: 'a'? 'b'* 'c'+ ;\n",
    "start: @:'a' | @+:'b' | ='c' | +='d' ;\n",
    "@@grammar :: G\n@@whitespace :: /[ \\t]+/\n@@nameguard :: False\n@@ignorecase\n@@namechars :: '-'\n@@comments :: /#.*/\n@@eol_comments :: ?\"//.*\"\n@@parseinfo :: True\n@@left_recursion :: False\n@@memoization :: False\n@@keyword :: a b 'c'\n@@keyword :: (d e)\n\nstart: 'a' ;\n",
    "@@whitespace :: None\n\nstart: 'a' ;\n",
    "@@whitespace ::\n\nstart: 'a' 'b' ;\n",
    "@@whitespace :: \n@@nameguard :: False\n\nstart: {'a'} {} 'b' ;\n",
    "@@whitespace :: False\n\nstart: 'a' ;\n",
    "start: {} a={} 'b' [{}] ;\n",
    "start: ','<{'a'}+ | ';'>{'b'}+ | ','<{x}- ;\nx: 'x' ;\n",
    "@@whitespace :: ' \\t'\n\nstart: 'a' ;\n",
    "start: &'a' !'b' ->'c' /./ $ $-> () !() {} ~ ;\n",
    "start: `1` `a b` ```x\ny``` ^`m` ^^^`n` ;\n",
    "start: @int @uint @float @bool @name ;\n",
    "start: ','.{'a'} ','.{'a'}+ ','%{'a'} ','%{'a'}+ ('a' 'b')%{'c'} ;\n",
    "start: (?: 'a' | 'b') ('c') ['d'] ;\n",
    "a: 'x'\n\nb: >a 'y'\n\n@override\na: 'z'\n",
    "@name\nid: /\\w+/\n\n@nomemo\n@nostak\nr: id\n",
    "base: 'b'\n\nchild < base: 'c'\n\nchild2[T] < base: 'd'\n",
    "start:\n    | 'a'\n    | 'b'\n\nnext: 'c'\n",
    "start: 'a', 'b', 'c' ;\n",
    "start: \n",
    "",
    "start: 'a' ;;\n",
    "#include :: \"nofile\"\nstart: 'a' ;\n",
    # words that merely start with a literal of the grammar language (true, false, null, None, ...)
    "start[trueish]: 'a' ;\n",
    "start[Nonesuch, k=falsey]: 'a' ;\n",
    "start[nullable]: 'a' ;\n\nTruest: Falsetto ;\n\nFalsetto: 'x' ;\n",
    "@@keyword :: nullable truest Nonesuch\n\nstart: 'a' ;\n",
    "@@whitespace :: Nonesuch\n\nstart: 'a' ;\n",
    "@@nameguard :: Truely\n\nstart: 'a' ;\n",
    "@@grammar :: Falsey\n\nstart: override | name_ | int3 ;\n\noverride: 'o' ;\n\nname_: 'n' ;\n\nint3: 'i' ;\n",
]


class Parsers:
    def __init__(self):
        import tatsu
        from tatsu.boot import bootparser, bootstrap
        from tatsu.ngcodegen.ngparser_gen import pythongen
        repo = os.environ.get('VF_REPO', '/repo')
        self.P1 = bootstrap.TatSuBootstrapParser
        self.P2 = bootparser.GRAMMAR_MODEL
        ebnf = open(os.path.join(repo, 'tatsu', '_tatsu.ebnf')).read()
        self.P3 = tatsu.compile(ebnf, name='TatSuC15')
        src = pythongen(self.P3, parser_name='TatSuC15')
        mod = tu.load_generated(src, 'vf15gen')
        self.P4 = tu.find_parser_class(mod)

    def run(self, which, text):
        from tatsu.exceptions import ParseException
        from tatsu.peg.semantics import GrammarSemantics
        sem = GrammarSemantics(name='C15')
        try:
            if which == 'P1':
                m = self.P1(semantics=sem).parse(text)
            elif which == 'P2':
                m = self.P2.parse(text, semantics=sem)
            elif which == 'P3':
                m = self.P3.parse(text, semantics=sem)
            else:
                m = self.P4(semantics=sem).parse(text)
        except ParseException as e:
            return ('fail', type(e).__name__, getattr(e, 'pos', -1))
        except RecursionError:
            return ('exc', 'RecursionError', '')
        except Exception as e:
            return ('exc', type(e).__name__, str(e)[:150])
        try:
            pretty = m.pretty()
        except Exception as e:
            pretty = f'<pretty raises {type(e).__name__}>'
        return ('ok', tu.canon(m), pretty)


_parsers = [None]


def parsers():
    if _parsers[0] is None:
        _parsers[0] = Parsers()
    return _parsers[0]


def check(text):
    ps = parsers()
    info = {}
    outs = {}
    try:
        with watchdog(30):
            for w in ('P1', 'P2', 'P3', 'P4'):
                outs[w] = ps.run(w, text)
    except CaseTimeout:
        info['skip'] = 'timeout'
        return None, info
    info['outcome'] = outs['P1'][0]
    info['pos'] = outs['P1'][2] if outs['P1'][0] == 'fail' else None
    kinds = {w: o[0] for w, o in outs.items()}
    if len(set(kinds.values())) > 1 or any(k == 'exc' for k in kinds.values()):
        excs = {w: o[1] for w, o in outs.items() if o[0] == 'exc'}
        if excs and len(set(kinds.values())) == 1 and len(set(excs.values())) == 1:
            info['outcome'] = 'exc-all'   # all four raise the same foreign exception: C08's subject
            return None, info
        return dict(bucket='accept:' + '/'.join(f'{w}={kinds[w]}' for w in sorted(kinds)), oracle='the four parsers make the same accept/reject decision',
                    outcomes={w: (o[0], o[1] if o[0] != 'ok' else '') for w, o in outs.items()}), info
    if kinds['P1'] == 'ok':
        ref = outs['P1']
        for w in ('P2', 'P3', 'P4'):
            if outs[w][1] != ref[1]:
                return dict(bucket=f'model:P1-vs-{w}', oracle='the four parsers build equal grammar models', P1=ref[2][:400], other=outs[w][2][:400]), info
            if outs[w][2] != ref[2]:
                return dict(bucket=f'pretty:P1-vs-{w}', oracle='equal models print the same', P1=ref[2][:400], other=outs[w][2][:400]), info
    return None, info


def base_texts():
    out = list(HAND)
    repo = os.environ.get('VF_REPO', '/repo')
    for fn in ('tatsu/_tatsu.ebnf', 'grammar/calc.ebnf', 'grammar/calc_model.tatsu', 'grammar/pretty.tatsu', 'tatsu/g2e/antlr.tatsu'):
        try:
            out.append(open(os.path.join(repo, fn)).read())
        except OSError:
            pass
    return out


def plan(tier):
    n = 100 if tier == 'quick' else 2500
    return [dict(index=i, n=n) for i in range(16)]


def run_shard(sh, index, n):
    base = base_texts()
    # fixed texts, spread over the shards
    for k, t in enumerate(base):
        if k % 16 != index:
            continue
        d, info = check(t)
        sh.case(t, info.get('outcome') == 'ok', ['fixed-text', f'outcome:{info.get("outcome")}'], sample=dict(text=t[:200], outcome=info.get('outcome')))
        if d:
            sh.fail(d['bucket'], dict(text=t), d)

    def body(rnd):
        reset_tatsu_state()
        r = rnd.random()
        if r < 0.55:
            rules = gen.gen_rules(rnd, gen.GenCfg(cut=True))
            rd, directives, keywords, _ = c13.decorate(rnd, rules)
            text = grammar_text(rd, directives, keywords)
            if rnd.random() < 0.3:
                # the layout pretty() uses: no ';', blank lines between rules
                text = text.replace(' ;\n', '\n')
            src = 'generated'
        else:
            text = rnd.choice(base)
            src = 'base'
        k = 0
        if rnd.random() < 0.55:
            k = rnd.randint(1, 3)
            text = c08.mutate(rnd, text, k)
        d, info = check(text)
        if info.get('skip'):
            sh.note('skipped: ' + info['skip'])
            return
        nt = info.get('outcome') == 'ok' or (k and (info.get('pos') or 0) > 0)
        sh.case(text, bool(nt), [f'source:{src}', f'edits:{k}', f'outcome:{info.get("outcome")}'], sample=dict(text=text[:300], outcome=info.get('outcome')))
        if d:
            sh.fail(d['bucket'], dict(text=text), d)
    hyp_run(sh, gen.rnds(), body, n)


def replay(case):
    d, _ = check(case['text'])
    return d


def shrink_candidates(case):
    yield from c08.shrink_candidates(dict(kind='grammar', text=case['text']))


EXCLUSIONS = {}
