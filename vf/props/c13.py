"""C13 — pretty-printed grammars recompile to the same parser and are a fixpoint."""
from __future__ import annotations

import unicodedata

from vf import gen, tu
from vf.core import hyp_run, reset_tatsu_state, watchdog, CaseTimeout
from vf.gast import children, grammar_text, replace_children, shrink_rules, tup, walk

PROPERTY = 'C13'
RULE = ('generated grammars over the full expression language: the C01 language plus $->, @int/@uint/@float/@bool/@name, alerts (levels 1-3), '
        'constants (plain, quoted, multi-line), patterns containing /, quotes, backslashes and leading blanks, tokens containing \', ", both, '
        'backslashes, tabs and non-ASCII, directives (whitespace incl. None, nameguard, ignorecase, namechars, comments, eol_comments, parseinfo, '
        'left_recursion, grammar), keywords (words and quoted strings), rule parameters (positional, keyword), based rules, @name and @nomemo '
        'decorators, wide (CJK) tokens; models obtained by compile(text), by Grammar.loads(model.asjsons()) and by tatsu.g2e.translate of a small '
        'generated ANTLR grammar. Oracle (round trip): p1 = m.pretty(); compile(p1) succeeds; same rule names, parameters, bases, is_name / no_memo '
        '/ is_tokn, directives and keywords; equal outcomes of m and the recompiled model on derived sentences and near misses; '
        'pretty(recompiled) == p1; m.railroads() returns and the lines of every rule\'s track have one display width (east-asian aware). '
        'non-trivial = the grammar has a quoting-sensitive node (special token/pattern, constant, alert, meta, $->, regex directive, '
        'non-identifier parameter); distinct = distinct grammar text')
ASSUMPTIONS = [
    'equality of parsers is observed on generated inputs (sentences derived from the grammar, near misses), not proved',
    'the first line of a railroad track carries the rule name and the end marker; the width rule is applied to the remaining lines',
]
BUDGET_S = {'quick': 150, 'thorough': 1500}

SPECIAL_TOKS = ["it's", 'say "hi"', 'a\\b', 'tab\there', 'ünï', '東京', "'", '"', '\\', '//', '`', '{', '#x', '->', ' sp ']
SPECIAL_PATS = [(' lead', [' lead']), ('a/b', ['a/b']), (r'\d+', ['12']), ('[\'"]', ["'", '"']), (r'x\/y', ['x/y']), ('(?i)ab', ['AB', 'ab']), (r'\w+\s', ['ab ']),
                ('[^/]+/', ['q/']), ('"q"', ['"q"']), ('a/"b', ['a/"b']), ('[\\\\/]', ['/', '\\']), ('a\\\\/b', ['a\\/b']), ('[/"\']x', ['/x', '"x', "'x"]), ('', ['']), ("y/'", ["y/'"]), (r'\\', ['\\']), ('[a-c]+?', ['a']),
                # the pattern '.', which is not the any-character expression (it stops at a line break); a literal TAB; a line break in a
                # pattern that is not verbose (there the line break and what follows it are matched, not ignored)
                ('.', ['x', '\n']), ('a\tb', ['a\tb']), ('a\nb', ['a\nb']), ('x\n  y', ['x\n  y']),
                # multi-line (verbose) patterns: the first line follows the opening slash, the others are indented
                ('(?x)\n    [a-c]      # first\n    [a-c0-9]*  # rest\n    ', ['a1', 'abc']), ('(?x)\n  a+\n      b*\n', ['ab', 'a']), ('(?x) a\n   b', ['ab'])]
CONSTS = ['7', 'k', "'s'", '2.5', 'a b', 'x{}y', "it's", 'None', 'True', 'two\nlines', 'a b\n  c d\ne', "' x '", '\n  x\n   y\n', 'x`y', 'a``b c']
ALERTS = ['msg', 'bad thing here', 'x', 'two\nlines']
DIRECTIVES = [
    ('whitespace', "/[ \\t]+/"), ('whitespace', 'None'), ('whitespace', "/\\s+/"), ('nameguard', 'False'), ('nameguard', 'True'), ('ignorecase', 'True'),
    ('namechars', "'-'"), ('namechars', "'$_'"), ('comments', "/\\(\\*.*?\\*\\)/"), ('comments', '?"/\\*.*?\\*/"'), ('eol_comments', "/#[^\\n]*/"),
    ('eol_comments', '?"//[^\\n]*"'), ('eol_comments', '?\'#/"[^\\n]*\''), ('comments', '?\'/"[a-z]*"/\''), ('parseinfo', 'True'), ('left_recursion', 'False'), ('grammar', 'Foo'), ('memoization', 'False'),
]


def width(s):
    w = 0
    for c in s:
        if unicodedata.combining(c):
            continue
        w += 2 if unicodedata.east_asian_width(c) in 'WF' else 1
    return w


def check_railroads(model):
    try:
        text = model.railroads()
    except Exception as e:
        return dict(bucket=f'railroads-raises:{type(e).__name__}', oracle='the railroad rendering of any model completes', observed=str(e)[:300])
    # The renderer checks the width of every track while it assembles it (railmath.assert_one_length, east-asian aware) and
    # raises when the widths differ; the final text is right-stripped per line and elements after `$` are cut from the first
    # line only, so completion (no AssertionError) is the observable form of "tracks of consistent width".
    _ = text
    return None


def structure(m):
    return dict(rules=[(r.name, tuple(r.params or ()), tuple(sorted((r.kwparams or {}).items())), getattr(r, 'base', None),
                        bool(r.is_name), bool(r.no_memo), bool(r.is_tokn)) for r in m.rules],
                directives=dict(sorted((k, v) for k, v in m.directives.items())), keywords=tuple(sorted(m.keywords)))


PRE = [(), (), (), ('lean',), ('railroads',), ('pretty', 'lean'), ('str',), ('lean-rule',), ('lean', 'pretty', 'lean')]


def render_before(m, pre):
    """other renderings of the same model object asked for before its pretty() text is taken: pretty() is a function of the model only"""
    for what in pre:
        if what == 'lean':
            m.pretty_lean()
        elif what == 'pretty':
            m.pretty()
        elif what == 'railroads':
            m.railroads()
        elif what == 'str':
            str(m)
        elif what == 'lean-rule':
            for r in m.rules[:2]:
                r.pretty_lean()


def check(gtext, inputs, route='compile', antlr=None, pre=()):
    """returns (detail|None, info)"""
    import tatsu
    info = {}
    try:
        with watchdog(40):
            try:
                if route == 'antlr':
                    from tatsu import g2e
                    m = g2e.translate(antlr, name='A13')
                    if isinstance(m, str):
                        m = tatsu.compile(m, name='A13')
                else:
                    m = tatsu.compile(gtext, name='R13')
                    if route == 'json':
                        from tatsu.peg import Grammar
                        m = Grammar.loads(m.asjsons())
            except Exception as e:
                info['skip'] = f'source model: {type(e).__name__}: {str(e)[:100]}'
                return None, info
            try:
                render_before(m, pre)
            except Exception as e:
                info['prenote'] = f'rendering before: {type(e).__name__}: {str(e)[:100]}'     # (railroads() is judged on its own below)
                pre = ()
            try:
                p1 = m.pretty()
            except Exception as e:
                return dict(bucket=f'pretty-raises:{type(e).__name__}', oracle='pretty() returns text for every model', observed=str(e)[:300]), info
            try:
                m2 = tatsu.compile(p1, name='R13b')
            except Exception as e:
                return dict(bucket=f'recompile:{type(e).__name__}', oracle='the pretty-printed text is a valid grammar', pretty=p1[:600],
                            observed=str(e)[:300].replace('\n', ' | ')), info
            s1, s2 = structure(m), structure(m2)
            for key in ('rules', 'directives', 'keywords'):
                if s1[key] != s2[key]:
                    return dict(bucket=f'structure:{key}', oracle='recompiling keeps rule names, parameters, bases, decorators, directives and keywords',
                                original=s1[key], recompiled=s2[key], pretty=p1[:600]), info
            for t in inputs:
                a = tu.outcome(lambda: m.parse(t))
                b = tu.outcome(lambda: m2.parse(t))
                if not tu.same_outcome(a, b):
                    return dict(bucket='behaviour', oracle='the recompiled model accepts the same inputs with equal ASTs', input=t, original=a, recompiled=b,
                                pretty=p1[:600]), info
                info['accepted'] = info.get('accepted', 0) + (a[0] == 'ok')
            try:
                render_before(m2, pre)
                p2 = m2.pretty()
            except Exception as e:
                return dict(bucket=f'pretty2-raises:{type(e).__name__}', oracle='pretty() of the recompiled model returns', observed=str(e)[:300], pretty=p1[:600]), info
            if p2 != p1:
                return dict(bucket='fixpoint', oracle='pretty-printing the recompiled model gives the same text', first=p1[:600], second=p2[:600]), info
            d = check_railroads(m)
            if d:
                return d, info
    except CaseTimeout:
        info['skip'] = 'timeout'
    return None, info


# ------------------------------------------------------------------ generation
def decorate(rnd, rules):
    """turn a core-language grammar into a full-language one; returns (rule dicts, directives, keywords, sensitive?)"""
    sensitive = [False]

    def sub(e):
        k = e[0]
        r = rnd.random()
        if k == 'tok' and r < 0.25:
            sensitive[0] = True
            return ('tok', rnd.choice(SPECIAL_TOKS))
        if k == 'pat' and r < 0.4:
            sensitive[0] = True
            p, ex = rnd.choice(SPECIAL_PATS)
            gen.EXAMPLES[p] = ex
            return ('pat', p)
        if k == 'const' and r < 0.7:
            sensitive[0] = True
            return ('const', rnd.choice(CONSTS))
        if k == 'join' and e[3] and r < 0.3 and e[1][0] in ('tok', 'pat'):
            # the left-/right-associative joins (deprecated syntax, own node classes)
            sensitive[0] = True
            return ('join', sub(e[1]), sub(e[2]), True, rnd.choice(['left', 'right']))
        if k in ('void', 'empty', 'dot') and r < 0.5:
            sensitive[0] = True
            c = rnd.random()
            if c < 0.35:
                return ('meta', rnd.choice(['int', 'uint', 'float', 'bool', 'name']))
            if c < 0.6:
                return ('alert', rnd.choice(ALERTS), rnd.randint(1, 3))
            if c < 0.8:
                return ('eol',)
            return ('const', rnd.choice(CONSTS))
        return replace_children(e, [sub(c) for c in children(e)])
    rd = []
    for n, x in rules:
        rd.append(dict(name=n, exp=sub(x)))
    if rnd.random() < 0.15:
        # a rule include (>rule): the included rule's expression is used in place.  The included rule must be defined before
        # the include, so a new last rule includes an earlier one and the start rule calls the new rule
        target = rnd.choice(rd)['name']
        rd.append(dict(name='zinc', exp=('seq', (('tok', 'b'), ('inc', target), ('opt', ('tok', ','))))))
        rd[0]['exp'] = ('seq', (rd[0]['exp'], ('opt', ('call', 'zinc')))) if rnd.random() < 0.5 else ('alt', (('seq', (('tok', '+'), ('call', 'zinc'))), rd[0]['exp']))
    for d in rd:
        r = rnd.random()
        if r < 0.2:
            d['params'] = tuple(rnd.choice([('Tp',), ('Tp', 'x'), (7,), ('a b',), ('Tp::Base',), ("it's",), ('True',), ('1',), ('2d',), ('None', 'x'), (True,), (2.5,), ('x', '007'), ('Tp', 'pkg::Node'), ('x', 'a::b::c', 'y'), ('pkg::Node', 'pkg::Node')]))
            if any(not (isinstance(p, str) and p.isidentifier()) for p in d['params']):
                sensitive[0] = True
            if rnd.random() < 0.4:
                d['kwparams'] = {'k': rnd.choice(['v', 3, 'a b', 'pkg::Node', 'True'])}
        if rnd.random() < 0.12:
            d['decorators'] = rnd.choice([('nomemo',), ('name',), ('nostak',), ('nomemo', 'nostak'), ('name', 'nomemo'), ('nostak', 'name', 'nomemo')])
    if len(rd) >= 2 and rnd.random() < 0.12:
        # @override: a later definition replaces the earlier one (the model keeps a single rule, printed without the decorator)
        victim = rnd.choice(rd[1:])
        rd.append(dict(name=victim['name'], exp=('seq', (('tok', 'b'), ('opt', ('tok', ',')))), decorators=('override',)))
    elif len(rd) >= 2 and rnd.random() < 0.2:
        rd.insert(len(rd) - 1, dict(name='bs', exp=('seq', (('tok', 'b'), ('opt', ('tok', ','))))))
        rd[-1]['base'] = 'bs'
    directives = []
    if rnd.random() < 0.5:
        for _ in range(rnd.randint(1, 3)):
            d = rnd.choice(DIRECTIVES)
            if d[0] not in [x[0] for x in directives]:
                directives.append(d)
                if d[0] in ('whitespace', 'comments', 'eol_comments', 'namechars'):
                    sensitive[0] = True
    keywords = []
    if rnd.random() < 0.3:
        keywords = rnd.sample(['if', 'then', 'a', "it's", 'x y', 'END'], rnd.randint(1, 3))
        if rnd.random() < 0.4:
            # a list long enough to be printed over several @@keyword lines, with words that hold blanks and hyphens
            more = ['not in', 'end-if', 'is not', 'group by', 'order-by', 'else if', 'x - y', 'a-b-c d', "don't care", 'while', 'return', 'begin', 'until', 'otherwise']
            keywords = keywords + rnd.sample(more, rnd.randint(5, len(more)))
            rnd.shuffle(keywords)
    return rd, directives, keywords, sensitive[0]


def gen_antlr(rnd):
    """a small ANTLR grammar"""
    toks = ['ID', 'NUM']
    def alt():
        n = rnd.randint(1, 3)
        parts = []
        for _ in range(n):
            r = rnd.random()
            if r < 0.3:
                parts.append(rnd.choice(toks))
            elif r < 0.5:
                parts.append(rnd.choice(["'+'", "';'", "'='"]))
            elif r < 0.65:
                parts.append('expr')
            elif r < 0.8:
                parts.append(f"lbl={rnd.choice(toks)}")
            elif r < 0.86:
                # a negated set (~x: any character but x), bare, labelled and repeated
                parts.append(rnd.choice(["~'+'", "lbl=~';'", "~('=' | ';')", "lbl=~'+' ID", "(~';')+"]))
            elif r < 0.93:
                parts.append(f"({rnd.choice(toks)} | {rnd.choice(toks)}){rnd.choice(['', '*', '+', '?'])}")
            else:
                parts.append(f"lbl=({rnd.choice(toks)} | {rnd.choice(toks)})")
        return ' '.join(parts)
    g = "grammar G;\n\nstart : stmt+ EOF ;\n\n"
    g += "stmt : " + ' | '.join(alt() for _ in range(rnd.randint(1, 3))) + " ;\n\n"
    g += "expr : " + ' | '.join([rnd.choice(toks) + (" '+' expr" if rnd.random() < 0.5 else '')] + [rnd.choice(toks)]) + " ;\n\n"
    g += "ID : [a-z]+ ;\nNUM : [0-9]+ ;\nWS : [ \\t\\r\\n]+ -> skip ;\n"
    return g


def plan(tier):
    n = 70 if tier == 'quick' else 1500
    return [dict(n=n) for _ in range(16)]


def run_shard(sh, n):
    gcfg = gen.GenCfg(cut=True)

    def body(rnd):
        reset_tatsu_state()
        r = rnd.random()
        if r < 0.12:
            antlr = gen_antlr(rnd)
            inputs = [' '.join(rnd.choice(['x', 'y', '1', '22', '+', ';', '=']) for _ in range(rnd.randint(1, 6))) for _ in range(5)]
            d, info = check(None, inputs, 'antlr', antlr)
            sh.case(antlr, True, ['route:antlr'], sample=dict(antlr=antlr))
            if info.get('skip'):
                sh.note('skipped: ' + info['skip'][:60])
            if d is not None:
                sh.fail(d['bucket'], dict(route='antlr', antlr=antlr, inputs=inputs), d)
            return
        rules = gen.gen_rules(rnd, gcfg)
        rd, directives, keywords, sensitive = decorate(rnd, rules)
        gtext = grammar_text(rd, directives, keywords)
        rmap = {d_['name']: d_['exp'] for d_ in rd}
        start = rd[0]['name']
        inputs = []
        for _ in range(5):
            lx = gen.derive(rnd, rmap, rmap[start])
            if rnd.random() < 0.3:
                lx = gen.near_miss(rnd, lx)
            inputs.append(gen.layout(rnd, lx, rnd.choice(['base', 'tight'])))
        route = 'json' if rnd.random() < 0.25 else 'compile'
        pre = rnd.choice(PRE)
        d, info = check(gtext, inputs, route, pre=pre)
        types = {e[0] for d_ in rd for e in walk(d_['exp'])}
        cls = [f'route:{route}'] + ([f'rendered before pretty(): {"+".join(pre)}'] if pre else []) + [f'node:{t}' for t in types & {'meta', 'alert', 'eol', 'const', 'skipto', 'join', 'cut'}]
        cls += [f'directive:{x[0]}' for x in directives]
        if keywords:
            cls.append('keywords')
        if info.get('skip'):
            sh.note('skipped: ' + info['skip'][:60])
            return
        sh.case(gtext, sensitive, cls, sample=dict(grammar=gtext, route=route, inputs=inputs[:2]))
        if d is not None:
            sh.fail(d['bucket'], dict(route=route, rd=rd, directives=directives, keywords=keywords, inputs=inputs, pre=list(pre)), d)
    hyp_run(sh, gen.rnds(), body, n)


def _norm_rd(rd):
    out = []
    for d in rd:
        d = dict(d)
        d['exp'] = tup(d['exp'])
        for k in ('params', 'decorators'):
            if k in d and isinstance(d[k], list):
                d[k] = tuple(d[k])
        out.append(d)
    return out


def replay(case):
    if case.get('route') == 'antlr':
        d, _ = check(None, case['inputs'], 'antlr', case['antlr'])
        return d
    rd = _norm_rd(case['rd'])
    gtext = grammar_text(rd, [tuple(x) for x in case.get('directives', [])], case.get('keywords', []))
    d, _ = check(gtext, case['inputs'], case.get('route', 'compile'), pre=tuple(case.get('pre', ())))
    return d


def shrink_candidates(case):
    if case.get('route') == 'antlr':
        return
    rd = _norm_rd(case['rd'])
    directives = [tuple(x) for x in case.get('directives', [])]
    kws = case.get('keywords', [])
    inputs = case['inputs']
    for i in range(len(inputs)):
        if len(inputs) > 1:
            yield dict(case, inputs=inputs[:i] + inputs[i + 1:])
    for i in range(len(directives)):
        yield dict(case, directives=directives[:i] + directives[i + 1:])
    if kws:
        yield dict(case, keywords=[])
    if case.get('route') == 'json':
        yield dict(case, route='compile')
    for i, d in enumerate(rd):
        for k in ('params', 'kwparams', 'decorators', 'base'):
            if d.get(k):
                d2 = {a: b for a, b in d.items() if a != k}
                yield dict(case, rd=rd[:i] + [d2] + rd[i + 1:])
    rules = [(d['name'], d['exp']) for d in rd]
    extra = {d['name']: {k: v for k, v in d.items() if k not in ('name', 'exp')} for d in rd}
    for r2 in shrink_rules(rules):
        if r2 and r2[0][0] == rules[0][0]:
            names = {n for n, _ in r2}
            if all((extra[n].get('base') in names or not extra[n].get('base')) for n in names if n in extra):
                yield dict(case, rd=[dict(name=n, exp=x, **extra.get(n, {})) for n, x in r2])


EXCLUSIONS = {}
