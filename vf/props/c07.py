"""C07 — object models mirror the AST with typed, navigable nodes.

Differential: the same input parsed (1) with a marking semantics that wraps the AST of every annotated
rule as Mark(typespec, ast), (2) with asmodel=True (synthesized classes), (3) with the classes of the
generated model module.  The results are walked in lock-step.
"""
from __future__ import annotations

import builtins
import os

from vf import gen, tu
from vf.core import hyp_run, reset_tatsu_state, watchdog, CaseTimeout
from vf.gast import children, grammar_text, replace_children, shrink_rules, tup, walk

PROPERTY = 'C07'
HISTORY_CONFIRM = True   # a failure that needs the process history is confirmed by re-running its shard from the seed
RULE = ('C01-style generated grammars whose rules carry type annotations (single `r[T]`, chains `T::B1::B2` with bases shared between '
        'rules, builtin names int/str/float/list on suitable rules, rules with and without names, element names that collide with dict '
        'attributes: items, keys, get), annotated rules reached inside closures, optionals, overrides and named lists; type names are unique '
        'per case; x 5 derived inputs. Oracle: lock-step walk of the marked plain AST against the model built with synthesized classes and '
        'against the model built with the classes of the generated model module (class name, declared bases, attributes == named elements, '
        'ast == value, builtin conversion); every node stored in an attribute (directly or in lists) is in children() and names the node as '
        'parent; DepthFirst, BreadthFirst and PostOrder walkers reach every node. non-trivial = >= 2 nodes, one nested in a list or optional; '
        'distinct = distinct (grammar, input)')
ASSUMPTIONS = [
    'the plain-AST parse of the same input is the reference for values (C01 judges it); marks are applied by a semantics object, i.e. through the same action mechanism as the model builder',
    'for classes of the generated module, declared fields that the parsed option did not define may exist with value None',
]
BUDGET_S = {'quick': 150, 'thorough': 1500}
BUILTINS = {'int', 'str', 'float', 'list', 'bool'}


class Mark:
    def __init__(self, typespec, ast):
        self.typespec = typespec
        self.ast = ast


class Marker:
    def _default(self, ast, *args, **kwargs):
        if args and isinstance(args[0], str):
            return Mark(args[0], ast)
        return ast


def public_attrs(node):
    return {k: v for k, v in vars(node).items() if not k.startswith('_') and k not in ('ast', 'ctx', 'parseinfo')}


def lockstep(a, b, path, lenient_extra=False, stats=None):
    """returns None or (path, message)"""
    from tatsu.objectmodel import Node
    if isinstance(a, Mark):
        spec = a.typespec.split('::')
        name = spec[0]
        if name in BUILTINS:
            try:
                want = getattr(builtins, name)(a.ast)
            except Exception:
                return None  # conversion of this value is not defined; the builder raises too (not compared here)
            if b != want or type(b) is not type(want):
                return path, f'builtin type {name}: expected {want!r}, got {b!r}'
            return None
        if not isinstance(b, Node):
            return path, f'rule annotated {a.typespec!r} did not yield a node: {type(b).__name__} {b!r}'[:300]
        if stats is not None:
            stats['nodes'] += 1
            if any(p in ('[', '?') for p in path):
                stats['nested'] += 1
        if type(b).__name__ != name:
            return path, f'class name: expected {name}, got {type(b).__name__}'
        mro = [c.__name__ for c in type(b).__mro__]
        for base in spec[1:]:
            if base not in mro:
                return path, f'declared base {base} missing from {mro}'
        undeclared = [c.__name__ for c in type(b).__mro__ if c.__module__ == 'tatsu.objectmodel.synth' and c.__name__ not in spec and c.__name__ != 'SynthNode']
        if undeclared:
            return path, f'undeclared base {undeclared[0]} in {mro} (declared {spec})'
        if isinstance(a.ast, dict):
            attrs = public_attrs(b)
            want = {k: v for k, v in a.ast.items() if k not in ('parseinfo', '__parseinfo__')}
            missing = set(want) - set(attrs)
            extra = set(attrs) - set(want)
            if missing and isinstance(b.ast, dict) and not any(v is not None for v in attrs.values()):
                # a rule without named elements of its own whose value is a dict AST of another rule: "its ast attribute holds the rule's value"
                return lockstep(a.ast, b.ast, path + ('.ast',), lenient_extra, stats)
            if lenient_extra:
                extra = {k for k in extra if attrs[k] is not None}
            if missing or extra:
                return path, f'attributes of {name}: missing {sorted(missing)}, extra {sorted(extra)}; named elements {sorted(want)}'
            for k in sorted(want):
                r = lockstep(want[k], attrs[k], path + ('.' + k,), lenient_extra, stats)
                if r:
                    return r
            return None
        return lockstep(a.ast, b.ast, path + ('.ast',), lenient_extra, stats)
    if isinstance(a, dict):
        if not isinstance(b, dict):
            return path, f'expected a dict AST, got {type(b).__name__}'
        ka = {k for k in a if k not in ('parseinfo', '__parseinfo__')}
        kb = {k for k in b if k not in ('parseinfo', '__parseinfo__')}
        if ka != kb:
            return path, f'dict keys differ: {sorted(ka)} vs {sorted(kb)}'
        for k in sorted(ka):
            r = lockstep(a[k], b[k], path + ('.' + k,), lenient_extra, stats)
            if r:
                return r
        return None
    if isinstance(a, (list, tuple)):
        if not isinstance(b, (list, tuple)) or len(a) != len(b):
            return path, f'list shape differs: {tu.canon(_plain(a))!r} vs {tu.canon(b)!r}'[:300]
        for i, (x, y) in enumerate(zip(a, b)):
            r = lockstep(x, y, path + ('[',), lenient_extra, stats)
            if r:
                return r
        return None
    if a != b or (isinstance(a, (bool, float)) or isinstance(b, (bool, float))) and type(a) is not type(b):
        # 1 == 1.0 == True in Python: a value that comes back as another type is another value
        return path, f'value differs: {a!r} vs {b!r}'[:200]
    return None


def _plain(x):
    if isinstance(x, Mark):
        return {'@' + x.typespec: _plain(x.ast)}
    if isinstance(x, dict):
        return {k: _plain(v) for k, v in x.items() if k not in ('parseinfo', '__parseinfo__')}
    if isinstance(x, (list, tuple)):
        return [_plain(v) for v in x]
    return x


def stored_nodes(node):
    """nodes stored in the attributes of `node`, directly or inside lists/dicts (my own walk)"""
    from tatsu.objectmodel import Node
    out = []

    def rec(v):
        if isinstance(v, Node):
            out.append(v)
        elif isinstance(v, dict):
            for k, x in v.items():
                if not str(k).startswith('_') and k not in ('parseinfo',):
                    rec(x)
        elif isinstance(v, (list, tuple)):
            for x in v:
                rec(x)
    attrs = public_attrs(node)
    for v in attrs.values():
        rec(v)
    if not isinstance(node.ast, dict):
        rec(node.ast)
    return out


def all_nodes(root):
    from tatsu.objectmodel import Node
    seen = {}
    roots = []

    def top(v):
        if isinstance(v, Node):
            roots.append(v)
        elif isinstance(v, dict):
            for x in v.values():
                top(x)
        elif isinstance(v, (list, tuple)):
            for x in v:
                top(x)
    top(root)
    stack = list(roots)
    while stack:
        n = stack.pop()
        if id(n) in seen:
            continue
        seen[id(n)] = n
        stack.extend(stored_nodes(n))
    return roots, list(seen.values())


def navigation(root):
    """children/parent/walkers; returns None or message"""
    from tatsu.walkers import BreadthFirstWalker, DepthFirstWalker, PostOrderDepthFirstWalker
    roots, nodes = all_nodes(root)
    for n in nodes:
        mine = stored_nodes(n)
        theirs = list(n.children())
        if {id(x) for x in mine} != {id(x) for x in theirs}:
            return f'children() of {type(n).__name__}: {len(theirs)} nodes, but {len(mine)} nodes are stored in its attributes'
        for c in theirs:
            if c.parent is not n:
                return f'child {type(c).__name__} of {type(n).__name__} names {type(c.parent).__name__ if c.parent is not None else None} as parent'
    for wcls in (DepthFirstWalker, BreadthFirstWalker, PostOrderDepthFirstWalker):
        visited = []

        class W(wcls):
            def walk_Node(self, node, *args, **kwargs):
                visited.append(id(node))
                return None
        for r in roots:
            W().walk(r)
        if set(visited) != {id(n) for n in nodes}:
            return f'{wcls.__name__} visited {len(set(visited))} of {len(nodes)} reachable nodes'
        # a walker object is not spent by a walk: the same object walks the same trees again and reaches every node again
        w = W()
        for turn in ('first', 'second'):
            del visited[:]
            for r in roots:
                w.walk(r)
            if set(visited) != {id(n) for n in nodes}:
                return f'{wcls.__name__} visited {len(set(visited))} of {len(nodes)} reachable nodes on the {turn} walk of one walker object'
    return None


_n = [0]


def check(rules, ruleinfo, text, cache=None):
    import tatsu
    rules = [(n, tup(x)) for n, x in rules]
    ruleinfo = {k: {kk: (tuple(vv) if isinstance(vv, list) else vv) for kk, vv in v.items()} for k, v in (ruleinfo or {}).items()}
    rd = [dict(name=n, exp=x, **ruleinfo.get(n, {})) for n, x in rules]
    start = rules[0][0]
    gtext = grammar_text(rd)
    info = dict(nodes=0, nested=0)
    if cache is not None and 'model' in cache:
        model, gsem = cache['model'], cache['gsem']
    else:
        _n[0] += 1
        name = f'Vf07n{os.getpid()}x{_n[0]}'
        try:
            model = tatsu.compile(gtext, name=name)
        except Exception as e:
            return dict(bucket=f'compile:{type(e).__name__}', oracle='grammar compiles', observed=str(e)[:300], grammar=gtext), info
        # the annotation each rule carries in the model is the one written in the grammar (a based rule keeps its own)
        for r in model.rules:
            want = tuple((ruleinfo.get(r.name) or {}).get('params') or ())
            if want and tuple(r.params or ()) != want:
                return dict(bucket='rule-annotation', oracle='a rule is built with the type annotation written on it', rule=r.name,
                            expected=list(want), observed=list(r.params or ()), grammar=gtext), info
        gsem = None
        try:
            src = tatsu.to_python_model(gtext, name=name)
            mod = tu.load_generated(src, 'vf07model')
            gsem = getattr(mod, f'{name}ModelBuilderSemantics')
            if cache is not None:
                cache['mod'] = mod
        except Exception as e:
            return dict(bucket=f'modelgen:{type(e).__name__}', oracle='the generated model module loads', observed=str(e)[:300], grammar=gtext), info
        if cache is not None:
            cache.update(model=model, gsem=gsem)
    # the generated parser as a fourth route: its own plain parse vs its own asmodel=True parse
    gcls = cache.get('gcls') if cache is not None else None
    if gcls is None and (cache is None or 'gcls' not in cache):
        try:
            psrc = tatsu.to_python_sourcecode(gtext, name=f'Vf07p{os.getpid()}x{_n[0]}')
            pmod = tu.load_generated(psrc, 'vf07parser')
            gcls = tu.find_parser_class(pmod)
            if cache is not None:
                cache['pmod'] = pmod
            else:
                tu.unload(pmod)
        except Exception:
            gcls = None   # C02's subject
        if cache is not None:
            cache['gcls'] = gcls
    from tatsu.exceptions import ParseException
    try:
        with watchdog(10):
            try:
                marked = model.parse(text, start=start, semantics=Marker())
            except (ParseException, RecursionError):
                info['plain'] = 'fail'   # rejection (or a recursion too deep for the limit): nothing to mirror; C08 owns error reporting
                return None, info
            except Exception as e:
                # the grammar model is itself a node tree that TatSu navigates with children(): an internal error here is a broken tree
                import traceback
                fr = [f for f in traceback.extract_tb(e.__traceback__) if '/tatsu/' in f.filename]
                where = f'{fr[-1].filename.split("/tatsu/")[-1]}:{fr[-1].name}' if fr else '?'
                return dict(bucket=f'plain-parse:{type(e).__name__}@{where}', oracle='parsing a generated sentence with a valid grammar returns or raises a parse error',
                            observed=f'{type(e).__name__}: {str(e)[:200]}'), info
            info['plain'] = 'ok'
            try:
                synth = model.parse(text, start=start, asmodel=True)
            except ParseException as e:
                return dict(bucket='asmodel-fails', oracle='model building parses what the plain parse accepts', observed=str(e)[:200]), info
            except Exception as e:
                if _builtin_conv_fails(marked):
                    info['plain'] = 'unconvertible'
                    return None, info
                return dict(bucket=f'asmodel:{type(e).__name__}', oracle='model building returns a tree', observed=str(e)[:300]), info
            stats = dict(nodes=0, nested=0)
            r = lockstep(marked, synth, (), False, stats)
            info.update(stats)
            if r:
                return dict(bucket='synth:' + _generic(r[1]), oracle='synthesized model mirrors the plain AST', path=''.join(r[0]), message=r[1],
                            plain=tu.canon(_plain(marked))), info
            msg = navigation(synth)
            if msg:
                return dict(bucket='navigation:' + msg.split(' ')[0][:30], oracle='children / parent / walkers reach every stored node', message=msg), info
            try:
                gmodel = model.parse(text, start=start, semantics=gsem())
            except Exception as e:
                return dict(bucket=f'generated-model:{type(e).__name__}', oracle='parsing with the generated model classes returns a tree', observed=str(e)[:300]), info
            r = lockstep(marked, gmodel, (), True, None)
            if r:
                return dict(bucket='generated:' + _generic(r[1]), oracle='classes from the generated model module give the same tree', path=''.join(r[0]),
                            message=r[1], plain=tu.canon(_plain(marked))), info
            msg = navigation(gmodel)
            if msg:
                return dict(bucket='generated-navigation:' + msg.split(' ')[0][:30], oracle='children / parent / walkers (generated classes)', message=msg), info
            if gcls is not None:
                try:
                    pmarked = gcls().parse(text, start=start, semantics=Marker())
                except Exception:
                    return None, info     # the generated parser disagrees about acceptance: C02's subject
                try:
                    psynth = gcls().parse(text, start=start, asmodel=True)
                except Exception as e:
                    if _builtin_conv_fails(pmarked):
                        return None, info
                    return dict(bucket=f'genparser-asmodel:{type(e).__name__}', oracle='model building through the generated parser returns a tree', observed=str(e)[:300]), info
                r = lockstep(pmarked, psynth, (), False, None)
                info['genparser'] = True
                if r:
                    return dict(bucket='genparser:' + _generic(r[1]), oracle='generated parser with asmodel=True mirrors its own plain AST', path=''.join(r[0]),
                                message=r[1], plain=tu.canon(_plain(pmarked))), info
    except CaseTimeout:
        info['timeout'] = True
    return None, info


def _generic(msg):
    import re
    return re.sub(r'[TB]\d+x\d+\w*', 'T', msg.split(':')[0])[:40]


def _builtin_conv_fails(marked):
    found = []

    def rec(x):
        if isinstance(x, Mark):
            name = x.typespec.split('::')[0]
            if name in BUILTINS:
                try:
                    getattr(builtins, name)(x.ast)
                except Exception:
                    found.append(name)
            rec(x.ast)
        elif isinstance(x, dict):
            for v in x.values():
                rec(v)
        elif isinstance(x, (list, tuple)):
            for v in x:
                rec(v)
    rec(marked)
    return bool(found)


def make_scalar_case(rnd, tag):
    """typed rules without names whose value is a bare scalar: equal values of different types (1, 1.0, True / 0, 0.0, False) reach the same
    node class one after the other; the node's ast (or the builtin conversion) is the value of THIS match"""
    alts = [('seq', (('skipgrp', ('tok', t)), ('meta', m))) for t, m in rnd.sample([('i', 'int'), ('f', 'float'), ('b', 'bool')], rnd.randint(2, 3))]
    rules = [('start', ('seq', (('star', ('alt', (('call', 'v'), ('seq', (('tok', '+'), ('call', 'sv')))))), ('eof',)))),
             ('v', ('alt', tuple(alts))), ('sv', ('alt', tuple(alts)))]
    ruleinfo = {'v': dict(params=(f'T{tag}v',)), 'sv': dict(params=(rnd.choice(['str', 'str', 'float', f'T{tag}s']),))}
    zero = rnd.random() < 0.5
    gen.EXAMPLES['@int'] = ['0'] if zero else ['1']
    gen.EXAMPLES['@float'] = ['0.0'] if zero else ['1.0']
    gen.EXAMPLES['@bool'] = ['false'] if zero else ['true']
    return rules, ruleinfo


def make_case(rnd, tag):
    if rnd.random() < 0.12:
        return make_scalar_case(rnd, tag)
    gcfg = gen.GenCfg(cut=False, skipto=False, lookahead=False)
    rules = gen.gen_rules(rnd, gcfg)
    ruleinfo = {}
    if len(rules) >= 2 and rnd.random() < 0.7:
        # make sure annotated rules are reached inside lists / optionals / named lists
        n0, x0 = rules[0]
        last = ('call', rules[-1][0])
        extra = rnd.choice([('star', last), ('namedl', 'm', last), ('opt', ('named', 'n', last)), ('join', ('tok', ','), last, False, True),
                            ('plus', ('seq', (('tok', '+'), last)))])
        rules[0] = (n0, ('seq', (x0, extra)))
    # a numeric rule for builtin conversion
    if rnd.random() < 0.4:
        rules.append(('num', ('pat', '[0-9]+')))
        ruleinfo['num'] = dict(params=(rnd.choice(['int', 'float', 'str']),))
        n0, x0 = rules[0]
        rules[0] = (n0, ('seq', (x0, ('opt', ('named', 'v', ('call', 'num'))))) if rnd.random() < 0.5 else ('seq', (x0, ('star', ('call', 'num')))))
    # one base chain per case, used consistently (a class cannot be declared with two different bases)
    tail = rnd.choice(['', f'::B{tag}a', f'::B{tag}a::B{tag}b'])
    for i, (n, _) in enumerate(rules):
        if n == 'num':
            continue
        if rnd.random() < 0.85:
            spec = f'T{tag}r{i}' + (tail if rnd.random() < 0.6 else '')
            ruleinfo[n] = dict(params=(spec,))
    # a based rule (name < base) with a type of its own over a typed base rule
    if len(rules) >= 2 and rnd.random() < 0.3:
        base = rules[-1][0] if rules[-1][0] != 'num' else rules[-2][0]
        if base != rules[0][0]:
            # the base rule defines named elements (the derived rule's node has them too)
            bx = dict(rules)[base]
            if not any(e[0] in ('named', 'namedl') for e in walk(bx)) and rnd.random() < 0.8:
                bx = ('seq', (('named', 'bn', ('tok', 'a')), bx)) if rnd.random() < 0.5 else ('seq', (bx, ('namedl', 'bl', ('tok', 'c'))))
                rules = [(n, (bx if n == base else x)) for n, x in rules]
            # (with names of its own in most cases: the node then has the fields of both rules)
            own = ('named', 'bo', ('tok', 'b')) if rnd.random() < 0.7 else ('tok', 'b')
            rules.append(('bsub', ('seq', (own, ('opt', ('tok', ','))))))
            ruleinfo['bsub'] = dict(params=(f'T{tag}rb' + (tail if rnd.random() < 0.5 else ''),), base=base)
            n0, x0 = rules[0]
            rules[0] = (n0, ('seq', (x0, ('opt', ('named', 'w', ('call', 'bsub'))))))
    # element names that collide with dict attributes
    if rnd.random() < 0.3:
        new = rnd.choice(['items', 'keys', 'get', 'values', 'items', 'keys', 'get', 'values', 'text', 'line', 'parent', 'path'])

        def ren(e):
            if e[0] in ('named', 'namedl') and e[1] == 'm':
                return (e[0], new, ren(e[2]))
            return replace_children(e, [ren(c) for c in children(e)])
        rules = [(n, ren(x)) for n, x in rules]
    return rules, ruleinfo


_tag = [0]


def plan(tier):
    n = 300 if tier == 'quick' else 5000
    return [dict(n=n) for _ in range(16)]


def run_shard(sh, n):
    def body(rnd):
        reset_tatsu_state()
        _tag[0] += 1
        rules, ruleinfo = make_case(rnd, f'{sh.index}x{_tag[0]}')
        cache = {}
        rmap = dict(rules)
        start = rules[0][0]
        gtext = grammar_text([dict(name=nm, exp=x, **ruleinfo.get(nm, {})) for nm, x in rules])
        try:
            for _ in range(5):
                lx = gen.derive(rnd, rmap, rmap[start])
                text = gen.layout(rnd, lx, 'base')
                d, info = check(rules, ruleinfo, text, cache)
                if 'model' not in cache:
                    if d is not None:
                        sh.fail(d['bucket'], dict(rules=rules, ruleinfo=ruleinfo, input=text), d)
                    return
                cls = [f'plain:{info.get("plain")}']
                if info.get('nodes', 0) >= 2:
                    cls.append('>=2 nodes')
                if info.get('nested'):
                    cls.append('node nested in list/attr')
                if any('::' in (v.get('params') or ('',))[0] for v in ruleinfo.values() if isinstance((v.get('params') or ('',))[0], str)):
                    cls.append('base-chain')
                if 'num' in ruleinfo:
                    cls.append('builtin-type')
                if 'sv' in ruleinfo:
                    cls.append('scalar-valued typed rules (1 / 1.0 / True)')
                if info.get('genparser'):
                    cls.append('generated-parser asmodel route compared')
                sh.case((gtext.replace(f'{sh.index}x{_tag[0]}', ''), text), info.get('nodes', 0) >= 2 and info.get('nested', 0) > 0, cls,
                        sample=dict(grammar=gtext, input=text, nodes=info.get('nodes')))
                if d is not None:
                    sh.fail(d['bucket'], dict(rules=rules, ruleinfo=ruleinfo, input=text), d)
            # the same type names declared by another grammar without (or with) the base chain, later in this process: each grammar's
            # nodes have the bases that grammar declares
            chained = [nm for nm, v in ruleinfo.items() if isinstance((v.get('params') or ('',))[0], str) and '::' in (v.get('params') or ('',))[0]]
            if chained and rnd.random() < 0.5:
                ruleinfo2 = {nm: (dict(v, params=(v['params'][0].split('::')[0],)) if nm in chained else v) for nm, v in ruleinfo.items()}
                cache2 = {}
                try:
                    for _ in range(2):
                        text = gen.layout(rnd, gen.derive(rnd, rmap, rmap[start]), 'base')
                        d, info = check(rules, ruleinfo2, text, cache2)
                        sh.case((gtext.replace(f'{sh.index}x{_tag[0]}', ''), text, 'second-grammar'), info.get('nodes', 0) >= 1, ['second grammar reusing the type names without the chain'],
                                sample=dict(grammar=gtext, input=text, note='then the same grammar with the base chains removed'))
                        if d is not None:
                            sh.fail('second-grammar:' + d['bucket'], dict(rules=rules, ruleinfo=ruleinfo2, input=text), d)
                            break
                finally:
                    for k in ('mod', 'pmod'):
                        if cache2.get(k) is not None:
                            tu.unload(cache2[k])
        finally:
            if cache.get('mod') is not None:
                tu.unload(cache['mod'])
            if cache.get('pmod') is not None:
                tu.unload(cache['pmod'])
    hyp_run(sh, gen.rnds(), body, n)


def replay(case):
    # type names must be fresh in this process too
    d, _ = check(case['rules'], case.get('ruleinfo') or {}, case['input'])
    return d


def shrink_candidates(case):
    rules = [(n, tup(x)) for n, x in case['rules']]
    text = case['input']
    ri = case.get('ruleinfo') or {}
    for i in range(len(text)):
        yield dict(case, input=text[:i] + text[i + 1:])
    for n in list(ri):
        yield dict(case, ruleinfo={k: v for k, v in ri.items() if k != n})
    for r2 in shrink_rules(rules):
        if r2 and r2[0][0] == rules[0][0]:
            names = {n for n, _ in r2}
            yield dict(case, rules=r2, ruleinfo={k: v for k, v in ri.items() if k in names})


def _f_c07_b(case, detail):
    """generated classes only: a rule that has both an override and names -> node.ast holds a node while fields exist"""
    if not detail.get('bucket', '').startswith('generated-navigation:children'):
        return False
    rules = [(n, tup(x)) for n, x in case['rules']]
    ri = case.get('ruleinfo') or {}
    for n, x in rules:
        kinds = {e[0] for e in walk(x)}
        # an annotated rule that declares names (so the generated class has fields) but can also return a non-dict value
        if ri.get(n, {}).get('params') and kinds & {'named', 'namedl'} and (kinds & {'ovr', 'ovrl', 'alt'}):
            return True
    return False


def _f_c07_f(case, detail):
    """generated classes only: an annotated rule that has names AND an override whose value is the dict of another rule: the class declares the
    rule's own names as fields and drops the keys that come with the override value (the synthesized class takes the keys of the value)"""
    if not detail.get('bucket', '').startswith('generated:attributes'):
        return False
    rules = [(n, tup(x)) for n, x in case['rules']]
    ri = case.get('ruleinfo') or {}
    for n, x in rules:
        kinds = {e[0] for e in walk(x)}
        if ri.get(n, {}).get('params') and kinds & {'named', 'namedl'} and kinds & {'ovr', 'ovrl'}:
            return True
    return False


NODE_MEMBERS = ('text', 'line', 'parent', 'path', 'children')


def _f_c07_e(case, detail):
    """a named element whose name is a read-only property or a method of Node"""
    rules = [(n, tup(x)) for n, x in case['rules']]
    return any(e[0] in ('named', 'namedl') and e[1] in NODE_MEMBERS for _, x in rules for e in walk(x))


EXCLUSIONS = {'F-C07-b': _f_c07_b, 'F-C07-e': _f_c07_e, 'F-C07-f': _f_c07_f}
