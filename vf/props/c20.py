"""C20 — styling text never alters the text itself.

Oracle: the builtin format(text, spec) (reference), tatsu.util.tty.descape for
stripping (it is part of the statement), my own SGR stripper as a cross-check of
descape on the generated sequences, and Style.from_raw(repr(s)) round trip.
"""
from __future__ import annotations

import os
import re
import sys

from hypothesis import strategies as st

from vf.core import hyp_run

PROPERTY = 'C20'
RULE = ('Hypothesis-generated (text, fg, bg, modifiers, format spec, way the spec is given, colour policy) tuples; '
        'texts are non-empty, free of ESC, drawn from a weighted alphabet (ASCII, braces, colons, backslashes, '
        'CJK wide, combining, zero-width, escaped-escape look-alikes); non-trivial = spec has width > len(text) or '
        'precision < len(text), or style has >= 2 SGR codes, or text has a wide/combining character; '
        'distinct = distinct tuple')
ASSUMPTIONS = [
    'the reference for "text formatted by that specification" is the builtin format(str, spec)',
    'format specs that str.__format__ rejects are outside the statement and skipped',
    'colour policy precedence is the one documented on Color: explicit > NO_COLOR > FORCE_COLOR > isatty',
]
BUDGET_S = {'quick': 60, 'thorough': 600}

MODS = ['bold', 'dim', 'italic', 'underline', 'blink', 'inverse', 'hidden', 'strikethrough']

_MY_SGR = re.compile('\x1b\\[[0-9;]*m')


def plan(tier):
    n = 3000 if tier == 'quick' else 40000
    return [dict(n=n) for _ in range(16)]


# ------------------------------------------------------------------ strategies
def texts():
    plain = st.characters(blacklist_characters='\x1b', blacklist_categories=('Cs',))
    special = st.sampled_from(list('{}:\\\'"[];m0123456789 <>^.') + ['\\e', '\\x1b', '\\e[31m', '\\x1b[1m', 'f{', '[31m', '[0m',
                                                                      '漢', '字', 'ｗ', 'é', '​', '́', '🙂', '\t', '\n'])
    ascii_ = st.sampled_from(list('abcXYZ hi'))
    piece = st.one_of(ascii_, ascii_, special, plain)
    return st.lists(piece, min_size=1, max_size=7).map(''.join).filter(lambda s: s and '\x1b' not in s)


def colors():
    from tatsu.ztyle import RGB
    return st.one_of(st.just(-1), st.just(-1), st.integers(0, 7), st.integers(8, 15), st.integers(16, 255),
                     st.builds(RGB, st.integers(0, 255), st.integers(0, 255), st.integers(0, 255)))


def specs():
    fill = st.one_of(st.sampled_from(list('*-_ 0{}:.x')), st.characters(blacklist_characters='\x1b', blacklist_categories=('Cs',)))
    def build(f, a, z, w, p, s):
        out = ''
        if a:
            out += (f or '') + a
        if z:
            out += '0'
        if w is not None:
            out += str(w)
        if p is not None:
            out += '.' + str(p)
        if s:
            out += 's'
        return out
    return st.builds(build, st.none() | fill, st.sampled_from(['', '<', '>', '^']), st.booleans(),
                     st.none() | st.integers(0, 16), st.none() | st.integers(0, 10), st.booleans())


def cases():
    mods = st.lists(st.sampled_from(MODS), unique=True, max_size=4).map(sorted)
    policy = st.sampled_from(['always', 'never', 'always', 'never', 'env', 'env_no', 'env_no_empty', 'env_force',
                              'env_force_empty', 'env_both', 'explicit_on_no', 'explicit_off_force'])
    how = st.sampled_from(['ctor', 'fmtmethod', 'apply', 'format', 'none', 'call'])
    return st.tuples(texts(), colors(), colors(), mods, specs(), how, policy)


# ------------------------------------------------------------------ the oracle on one case
def _policy(name):
    """returns (Color, env dict, expected_enabled)"""
    from tatsu.ztyle import Color
    env = {}
    explicit = None
    if name == 'always':
        explicit = True
    elif name == 'never':
        explicit = False
    elif name == 'env_no':
        env = {'NO_COLOR': '1'}
    elif name == 'env_no_empty':
        env = {'NO_COLOR': ''}
    elif name == 'env_force':
        env = {'FORCE_COLOR': '1'}
    elif name == 'env_force_empty':
        env = {'FORCE_COLOR': ''}
    elif name == 'env_both':
        env = {'NO_COLOR': '1', 'FORCE_COLOR': '1'}
    elif name == 'explicit_on_no':
        explicit = True
        env = {'NO_COLOR': '1'}
    elif name == 'explicit_off_force':
        explicit = False
        env = {'FORCE_COLOR': '1'}
    if explicit is not None:
        exp = explicit
    elif 'NO_COLOR' in env:
        exp = False
    elif 'FORCE_COLOR' in env:
        exp = True
    else:
        exp = bool(sys.stdout.isatty())
    col = Color.always() if explicit is True else Color.never() if explicit is False else Color.default()
    return col, env, exp


def _expected_codes(fg, bg, mods):
    n = len(mods)
    n += 0 if fg == -1 else 1
    n += 0 if bg == -1 else 1
    return n


def check_case(case):
    """returns None or a detail dict (with 'bucket')"""
    from tatsu.util.tty import descape
    from tatsu.ztyle import RGB, Style
    text, fg, bg, mods, spec, how, policy = case
    if isinstance(fg, list):
        fg = RGB(*fg)
    if isinstance(bg, list):
        bg = RGB(*bg)
    mods = list(mods)
    if how == 'none':
        spec = ''
    try:
        expected = format(text, spec)
    except ValueError:
        return 'skip'
    col, env, on = _policy(policy)
    saved = {k: os.environ.get(k) for k in ('NO_COLOR', 'FORCE_COLOR')}
    for k in saved:
        os.environ.pop(k, None)
    os.environ.update(env)
    try:
        kw = {m: True for m in mods}
        try:
            if how == 'ctor':
                s = Style(text, fg=fg, bg=bg, color=col, fmt=spec or None, **kw)
                out = str(s)
            elif how == 'fmtmethod':
                s = Style(text, fg=fg, bg=bg, color=col, **kw)
                if spec:
                    s = s.fmt(spec)
                out = str(s)
            elif how == 'apply':
                s = Style(text, fg=fg, bg=bg, color=col, **kw)
                out = s.apply(text, fmt=spec)
            elif how == 'format':
                s = Style(text, fg=fg, bg=bg, color=col, **kw)
                out = format(s, spec)
            elif how == 'call':
                s0 = Style(fg=fg, bg=bg, color=col, **kw)
                s = s0(text, fmt=spec or None)
                out = str(s)
            else:
                s = Style(text, fg=fg, bg=bg, color=col, **kw)
                out = str(s)
        except Exception as e:  # any exception for a spec the builtin accepts
            return dict(bucket=f'exception:{how}:{type(e).__name__}', oracle='styling raised', observed=repr(e))
        if s.enabled != on:
            return dict(bucket=f'policy:{policy}', oracle='Color.enabled precedence', expected=on, observed=s.enabled)
        if on:
            if descape(out) != expected:
                return dict(bucket=f'descape:{how}', oracle='descape(styled) == format(text, spec)',
                            expected=expected, observed=descape(out), raw=out)
            if _MY_SGR.sub('', out) != expected:
                return dict(bucket=f'sgr-strip:{how}', oracle='my SGR stripper(styled) == format(text, spec)',
                            expected=expected, observed=_MY_SGR.sub('', out), raw=out)
            ncodes = _expected_codes(fg, bg, mods)
            if expected and ncodes and '\x1b[' not in out:
                return dict(bucket=f'nostyle:{how}', oracle='colour on and codes set: output carries SGR', observed=out)
        else:
            if out != expected:
                return dict(bucket=f'plain:{how}', oracle='colour off: output == format(text, spec)',
                            expected=expected, observed=out)
            if '\x1b' in out:
                return dict(bucket=f'plain-esc:{how}', oracle='colour off: no ESC', observed=out)
        if how in ('ctor', 'fmtmethod', 'none', 'call'):
            try:
                n = len(s)
            except Exception as e:
                return dict(bucket=f'len-exception:{type(e).__name__}', oracle='len(style) raised', observed=repr(e))
            if n != len(expected):
                return dict(bucket=f'len:{how}:{"on" if on else "off"}', oracle='len(style) == len(format(text, spec))',
                            expected=len(expected), observed=n)
        # repr round trip
        try:
            r = Style.from_raw(repr(s))
        except Exception as e:
            return dict(bucket=f'repr-exception:{type(e).__name__}', oracle='from_raw(repr(s)) raised', observed=repr(e), repr=repr(s))
        a, b = s._kwattrs(), r._kwattrs()
        for k in a:
            if k in ('color', 'fmt'):
                continue
            if a[k] != b[k]:
                return dict(bucket=f'repr-attr:{k}', oracle='from_raw(repr(s)) keeps fg/bg/modifiers',
                            expected=repr(a[k]), observed=repr(b[k]), repr=repr(s))
        sfmt = s._fmt or ''
        # the statement conditions the text round trip on the *text* only: the format spec may use any fill character
        # "control characters" are the characters of category Cc: a no-break space, a zero-width space, a line separator or an
        # unassigned code point is not one (str.isprintable() rejects them all, which made this oracle weaker than the statement)
        import unicodedata
        tame_text = all(unicodedata.category(c) != 'Cc' and c not in '{}:\\\'"' for c in text)
        tame = tame_text and all(unicodedata.category(c) != 'Cc' and c not in '\\\'"' for c in sfmt)
        if tame:
            if r.value != text:
                return dict(bucket='repr-text', oracle='from_raw(repr(s)).value == text (tame text)',
                            expected=text, observed=r.value, repr=repr(s))
            if (r._fmt or None) != (sfmt or None):
                return dict(bucket='repr-fmt', oracle='from_raw(repr(s)) keeps fmt (tame text and fmt)',
                            expected=sfmt, observed=r._fmt, repr=repr(s))
        return None
    finally:
        for k in ('NO_COLOR', 'FORCE_COLOR'):
            os.environ.pop(k, None)
        for k, v in saved.items():
            if v is not None:
                os.environ[k] = v


def nontrivial(case):
    text, fg, bg, mods, spec, how, policy = case
    m = re.search(r'(\d+)?(?:\.(\d+))?s?$', spec or '')
    w = int(m.group(1)) if m and m.group(1) else None
    p = int(m.group(2)) if m and m.group(2) else None
    import unicodedata
    wide = any(unicodedata.east_asian_width(c) in 'WF' or unicodedata.combining(c) for c in text)
    return (how != 'none' and ((w is not None and w > len(text)) or (p is not None and p < len(text)))) \
        or _expected_codes(fg, bg, mods) >= 2 or wide


def classes(case):
    text, fg, bg, mods, spec, how, policy = case
    out = [f'how:{how}', f'policy:{policy}']
    for name, c in (('fg', fg), ('bg', bg)):
        if c == -1:
            out.append(f'{name}:unset')
        elif isinstance(c, (tuple, list)):
            out.append(f'{name}:rgb')
        elif c < 16:
            out.append(f'{name}:16')
        else:
            out.append(f'{name}:256')
    if '\\e' in text or '\\x1b' in text:
        out.append('text:escaped-escape')
    if any(c in text for c in '{}:'):
        out.append('text:brace/colon')
    if spec and how != 'none':
        out.append('spec:nonempty')
    return out


def run_shard(sh, n):
    def body(case):
        d = check_case(case)
        if d == 'skip':
            sh.note('spec rejected by builtin format (skipped)')
            return
        sh.case(case, nontrivial(case), classes(case), sample=dict(zip(
            ['text', 'fg', 'bg', 'mods', 'spec', 'how', 'policy'], case)))
        if d is not None:
            sh.fail(d['bucket'], dict(kind='style', args=list(case)), d)
    hyp_run(sh, cases(), body, n)
    # markup + error rendering sub-checks on a smaller budget
    hyp_run(sh, st.tuples(texts().filter(lambda t: '[' not in t), st.lists(st.sampled_from(
        ['bold', 'red', 'italic', 'underline', 'dim', 'green', 'blue_bg', 'bright_red']), min_size=1, max_size=3)),
        lambda v: _markup_body(sh, v), max(50, n // 10), label='markup')


def _markup_body(sh, v):
    text, tags = v
    d = check_markup(text, tags)
    sh.case(('markup', text, tuple(tags)), len(tags) >= 2, ['how:markup'])
    if d is not None:
        sh.fail(d['bucket'], dict(kind='markup', text=text, tags=tags), d)


def check_markup(text, tags):
    from tatsu.util.tty import descape
    from tatsu.ztyle import Color
    from tatsu.ztyle.markup import markup
    src = f'[{" ".join(tags)}]{text}[/all]'
    try:
        on = str(markup(src, color=Color.always()))
        off = str(markup(src, color=Color.never()))
    except Exception as e:
        return dict(bucket=f'markup-exception:{type(e).__name__}', oracle='markup raised', observed=repr(e))
    if descape(on) != text:
        return dict(bucket='markup-descape', oracle='descape(markup(text)) == text', expected=text, observed=descape(on))
    if off != text:
        return dict(bucket='markup-plain', oracle='colour off: markup output == text', expected=text, observed=off)
    return None


def replay(case):
    if case.get('kind') == 'markup':
        return check_markup(case['text'], case['tags'])
    d = check_case(tuple(case['args']))
    return None if d == 'skip' else d


def shrink_candidates(case):
    if case.get('kind') != 'style':
        return
    text, fg, bg, mods, spec, how, policy = case['args']
    def mk(**kw):
        a = dict(text=text, fg=fg, bg=bg, mods=mods, spec=spec, how=how, policy=policy)
        a.update(kw)
        return dict(kind='style', args=[a['text'], a['fg'], a['bg'], a['mods'], a['spec'], a['how'], a['policy']])
    for i in range(len(text)):
        t = text[:i] + text[i + 1:]
        if t:
            yield mk(text=t)
    for i, c in enumerate(text):
        if c not in 'a':
            yield mk(text=text[:i] + 'a' + text[i + 1:])
    if fg != -1:
        yield mk(fg=-1)
    if bg != -1:
        yield mk(bg=-1)
    for i in range(len(mods)):
        yield mk(mods=mods[:i] + mods[i + 1:])
    for i in range(len(spec)):
        yield mk(spec=spec[:i] + spec[i + 1:])
    if policy not in ('always', 'never'):
        yield mk(policy='always')
        yield mk(policy='never')


def _f_c20_b(case, detail):
    # text spelling an escaped escape (backslash-e / backslash-x1b) read back through tty_unescape
    if case.get('kind') != 'style':
        return False
    text = case['args'][0]
    return detail.get('bucket', '').startswith('repr-') and ('\\e' in text or '\\x1b' in text)


EXCLUSIONS = {'F-C20-b': _f_c20_b}
