"""CLI: python -m vf.run <ID> <quick|thorough> [--replay FILE]"""
import importlib
import os
import sys
import traceback


def main(argv):
    if len(argv) < 1:
        print('usage: check <ID> [quick|thorough] [--replay FILE]')
        return 2
    prop = argv[0].upper()
    tier = 'quick'
    replay = None
    rest = argv[1:]
    while rest:
        a = rest.pop(0)
        if a in ('quick', 'thorough'):
            tier = a
        elif a == '--replay':
            replay = rest.pop(0)
        else:
            print('unknown argument', a)
            return 2
    tier = os.environ.get('VERIF_TIER', tier) if tier not in ('quick', 'thorough') else tier
    try:
        seed = int(os.environ.get('VERIF_SEED', '1') or '1')
    except ValueError:
        seed = 1
    sys.setrecursionlimit(1500)
    try:
        from vf import core
        mod = importlib.import_module(f'vf.props.{prop.lower()}')
        if replay:
            return core.run_replay(mod, replay)
        return core.run_check(mod, tier, seed)
    except SystemExit:
        raise
    except BaseException:
        print('HARNESS-ERROR', traceback.format_exc())
        return 2


def _subreaper():
    """orphans among the processes the check starts (a pool worker or manager process that the code under test left behind) are
    re-parented to the check instead of init, so that they can be found and removed when the check ends"""
    try:
        import ctypes
        return ctypes.CDLL(None, use_errno=True).prctl(36, 1, 0, 0, 0) == 0   # PR_SET_CHILD_SUBREAPER
    except Exception:
        return False


def _kill_descendants():
    """nothing the check started may outlive it (a leftover process keeps the output pipe of the check open)"""
    import signal
    me = os.getpid()
    for _ in range(3):
        parent = {}
        for name in os.listdir('/proc'):
            if name.isdigit():
                try:
                    with open(f'/proc/{name}/stat') as f:
                        parent[int(name)] = int(f.read().rsplit(')', 1)[1].split()[1])
                except (OSError, ValueError, IndexError):
                    pass
        desc = set()
        frontier = {me}
        while frontier:
            frontier = {p for p, pp in parent.items() if pp in frontier and p not in desc and p != me}
            desc |= frontier
        if not desc:
            return
        for p in desc:
            try:
                os.kill(p, signal.SIGKILL)
            except OSError:
                pass
        import time
        time.sleep(0.1)


if __name__ == '__main__':
    _subreaper()
    rc = main(sys.argv[1:])
    sys.stdout.flush()
    sys.stderr.flush()
    _kill_descendants()
    sys.exit(rc)
