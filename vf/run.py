"""CLI: python -m vf.run <ID> <quick|thorough> [--replay FILE]"""
import importlib
import os
import sys
import traceback


def main(argv):
    if len(argv) < 1:
        print('usage: check <ID> [quick|thorough] [--replay FILE]')
        return 2
    prop = argv[0].upper()
    tier = 'quick'
    replay = None
    rest = argv[1:]
    while rest:
        a = rest.pop(0)
        if a in ('quick', 'thorough'):
            tier = a
        elif a == '--replay':
            replay = rest.pop(0)
        else:
            print('unknown argument', a)
            return 2
    tier = os.environ.get('VERIF_TIER', tier) if tier not in ('quick', 'thorough') else tier
    try:
        seed = int(os.environ.get('VERIF_SEED', '1') or '1')
    except ValueError:
        seed = 1
    sys.setrecursionlimit(1500)
    try:
        from vf import core
        mod = importlib.import_module(f'vf.props.{prop.lower()}')
        if replay:
            return core.run_replay(mod, replay)
        return core.run_check(mod, tier, seed)
    except SystemExit:
        raise
    except BaseException:
        print('HARNESS-ERROR', traceback.format_exc())
        return 2


if __name__ == '__main__':
    sys.exit(main(sys.argv[1:]))
