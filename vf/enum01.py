"""C01 enumeration tier: every expression tree up to a node bound over a tiny alphabet, as a one-rule grammar
(plus a two-rule variant where the tree is reached through a rule call), x every string over {a, b, ',', ' '}
up to a length bound.  Compared with RefPEG by the same `compare` as the random tier."""
from __future__ import annotations

import itertools

from vf import tu
from vf.core import reset_tatsu_state
from vf.gast import grammar_text

LEAVES = [('tok', 'a'), ('tok', 'b'), ('tok', ','), ('pat', '[ab]+'), ('empty',), ('void',), ('dot',), ('eof',)]
UNARY = [lambda e: ('opt', e), lambda e: ('star', e), lambda e: ('plus', e), lambda e: ('grp', e), lambda e: ('and', e), lambda e: ('not', e),
         lambda e: ('named', 'n', e), lambda e: ('namedl', 'n', e), lambda e: ('ovr', e), lambda e: ('skipto', e)]
BINARY = [lambda a, b: ('seq', (a, b)), lambda a, b: ('alt', (a, b)), lambda a, b: ('join', a, b, False, False), lambda a, b: ('join', a, b, True, True)]
ALPHA = ['a', 'b', ',', ' ']


def trees(size):
    """all expression trees with exactly `size` nodes"""
    if size == 1:
        return list(LEAVES)
    out = []
    for u in UNARY:
        for t in trees(size - 1):
            out.append(u(t))
    for ls in range(1, size - 1):
        rs = size - 1 - ls
        for b_i, b in enumerate(BINARY):
            for l in trees(ls):
                if b_i >= 2 and l[0] not in ('tok', 'pat'):
                    continue  # join separators: tokens and patterns
                for r in trees(rs):
                    out.append(b(l, r))
    return out


_cache = {}


def all_trees(maxsize):
    if maxsize not in _cache:
        out = []
        for s in range(1, maxsize + 1):
            out += trees(s)
        _cache[maxsize] = out
    return _cache[maxsize]


def strings(maxlen):
    for L in range(0, maxlen + 1):
        for t in itertools.product(ALPHA, repeat=L):
            yield ''.join(t)


CHAIN_OPS = [lambda e: ('opt', e), lambda e: ('star', e), lambda e: ('plus', e), lambda e: ('grp', e), lambda e: ('and', e), lambda e: ('not', e)]


def chains():
    """three nested unary operators over a leaf, followed by a token: the nestings that Optional/closure optimisations rewrite"""
    for a in CHAIN_OPS:
        for b in CHAIN_OPS:
            for c in CHAIN_OPS:
                for leaf in LEAVES:
                    yield ('seq', (a(b(c(leaf))), ('tok', 'b')))


def list_first_pairs():
    """a sequence whose first element has a list value, followed by an optional / choice / closure whose taken branch has one or
    two elements (how the values of neighbours are merged into the rule's value)"""
    A, B, K = ('tok', 'a'), ('tok', 'b'), ('tok', ',')
    firsts = [('star', A), ('plus', A), ('join', K, A, False, False), ('join', K, A, True, True), ('star', ('seq', (A, K))), ('call', 'r1'), ('grp', ('star', A)), ('opt', ('star', A))]
    seconds = [('opt', ('seq', (B, K))), ('alt', (('seq', (B, K)), K)), ('opt', B), ('seq', (B, K)), ('star', ('seq', (B, K))), ('star', B), ('grp', ('seq', (B, K))), ('opt', ('alt', (('seq', (B, B)), K)))]
    for f in firsts:
        for s2 in seconds:
            rules = [('start', ('seq', (f, s2)))]
            if f == ('call', 'r1'):
                rules.append(('r1', ('star', A)))
            yield rules
            yield [('start', ('named', 'n', ('grp', ('seq', (f, s2)))))] + rules[1:]


def grammars(maxsize):
    for t in all_trees(maxsize):
        yield [('start', t)]
    if maxsize == 3:
        for t in chains():
            yield [('start', t)]
        yield from list_first_pairs()
    # reached through a rule call, as first and as second element of the caller
    for t in all_trees(max(1, maxsize - 1)):
        yield [('start', ('seq', (('call', 'r1'), ('tok', ',')))), ('r1', t)]
        yield [('start', ('seq', (('tok', ','), ('call', 'r1')))), ('r1', t)]


def run_shard(sh, compare, index, nshards, tier):
    maxsize = 3 if tier == 'quick' else 4
    maxlen = 4 if tier == 'quick' else 5
    texts = list(strings(maxlen))
    complete = True
    from vf.refpeg import Ref
    for k, rules in enumerate(grammars(maxsize)):
        if k % nshards != index:
            continue
        if sh.out_of_budget():
            complete = False
            break
        if tier == 'thorough' and k % (3 * nshards) != index and len(rules) == 1 and sum(1 for _ in _walk(rules[0][1])) == maxsize:
            continue  # thorough: a third of the largest single-rule size (the rest is covered by the random tier)
        reset_tatsu_state()
        gtext = tu.wrapped_text(grammar_text(rules), 'start')
        try:
            model = tu.compile_grammar(gtext)
        except Exception as e:
            sh.case((gtext,), False, ['enum:compile-error:' + type(e).__name__])
            # a grammar the compiler rejects by design (e.g. a closure that may repeat the empty sequence) is not a parse case
            continue
        for text in texts:
            d, info = compare(rules, 'start', text, model)
            nt = info.get('ref') == 'ok' or info.get('terminals', 0) > 0
            sh.case((gtext, text), nt, ['enum', f'enum:ref:{info.get("ref")}'] + (['enum:fully-compared'] if not info.get('flags') else []),
                    sample=dict(grammar=grammar_text(rules), input=text, ref=info.get('ref')))
            for f in info.get('flags', []):
                sh.flag(f)
            if d is not None:
                sh.fail('enum-' + d['bucket'], dict(kind='enum', rules=rules, start='start', input=text), d)
    sh.exhaustive[f'all expression trees with <= {maxsize} nodes over 8 leaves (one rule, and reached through a call; plus all chains of three of opt/star/plus/group/&/! over a leaf followed by a token) x all strings over {{a,b,\',\',space}} up to length {maxlen}'] = complete


def _walk(e):
    from vf.gast import walk
    return walk(e)


def replay(case, compare):
    from vf.gast import tup
    rules = [(n, tup(x)) for n, x in case['rules']]
    d, _ = compare(rules, case['start'], case['input'])
    if d is not None:
        d = dict(d, bucket='enum-' + d['bucket'])
    return d
