#!/bin/bash
# tools/recheck_seeded.sh [ID/mK ...]   (default: every seeded change)
# Re-runs the property's quick check of the *current* /verif against each stored seeded change
# (scratch worktree, patch applied, removed afterwards) and records the outcome in
# seeded/<ID>/<mK>/meta.json under "recheck".  Sequential: each check uses all cores.
cd "$(dirname "$0")/.."
verif="$(pwd)"
if [ $# -eq 0 ]; then set -- $(ls -d seeded/*/m* | sed 's|seeded/||'); fi
vcommit=$(git -C "$verif" rev-parse --short HEAD)
for item in "$@"; do
  # item = <ID>/<mK> or <ID>/<mK>@<CHECK-ID> (a change seeded for one property may be caught by the check of another)
  chk=""; case "$item" in *@*) chk="${item##*@}"; item="${item%@*}";; esac
  id="${item%%/*}"; name="${item##*/}"; d="$verif/seeded/$id/$name"; chk="${chk:-$id}"
  [ -f "$d/patch.diff" ] || { echo "$item: no patch"; continue; }
  wt=$(mktemp -d /tmp/rmut.XXXXXX)
  git -C /repo worktree add -q --detach "$wt" HEAD
  if git -C "$wt" apply "$d/patch.diff" 2>/dev/null; then
    t0=$(date +%s)
    out=$(VF_SHRINK=0 VF_REPO="$wt" VERIF_SEED="${VERIF_SEED:-1}" "$verif/check" "$chk" quick 2>&1); rc=$?
    t1=$(date +%s)
    nviol=$(echo "$out" | grep -c "^VIOLATION")
    first=$(echo "$out" | grep -A1 "^VIOLATION" | head -2 | tail -1 | cut -c1-300)
    applied=1
  else
    rc=-1; nviol=0; first="patch does not apply to the current tree"; applied=0; t0=0; t1=0
  fi
  git -C /repo worktree remove --force "$wt" >/dev/null 2>&1; rm -rf "$wt"
  /venv/bin/python - "$d/meta.json" "$rc" "$nviol" "$first" "$vcommit" "$applied" "$((t1-t0))" "${VERIF_SEED:-1}" "$chk" "$id" <<'PY'
import json, sys
f, rc, nviol, first, vc, applied, secs, seed, chk, pid = sys.argv[1:]
m = json.load(open(f))
key = 'recheck' if chk == pid else 'recheck_' + chk
m[key] = dict(check=chk, verif_commit=vc, repo_head=None, applied=bool(int(applied)), exit=int(rc), violations=int(nviol),
                    first=first, detected=int(rc) == 1, seconds=int(secs), seed=int(seed))
json.dump(m, open(f, 'w'), indent=1)
print(f, 'exit', rc, 'violations', nviol, 'DETECTED' if int(rc) == 1 else ('NOAPPLY' if not int(applied) else 'MISSED'), secs, 's')
PY
done
