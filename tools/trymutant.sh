#!/bin/bash
# tools/trymutant.sh <patch.diff> <ID> [tier]  : run a check against a scratch worktree with the patch applied
set -e
patch="$1"; id="$2"; tier="${3:-quick}"
wt=$(mktemp -d /tmp/mut.XXXXXX)
git -C /repo worktree add -q --detach "$wt" HEAD
trap 'git -C /repo worktree remove --force "$wt" >/dev/null 2>&1; rm -rf "$wt"' EXIT
git -C "$wt" apply "$patch"
VF_REPO="$wt" /verif/check "$id" "$tier" 2>&1 | grep -E "VIOLATION|HARNESS|seed=" | cut -c1-400 | head -8
