#!/bin/bash
# tools/runall.sh [tier] [seed] : run every registered check once; prints one summary line per check
tier="${1:-quick}"; seed="${2:-1}"
cd "$(dirname "$0")/.."
for id in $(python3 -c "import json;print(' '.join(c['property_id'] for c in json.load(open('MANIFEST.json'))['checks']))"); do
  out=$(VERIF_SEED=$seed ./check $id $tier 2>&1); rc=$?
  echo "$id rc=$rc $(echo "$out" | grep -c '^VIOLATION') violations | $(echo "$out" | grep "seed=$seed" | tail -1 | cut -c1-170)"
  echo "$out" | grep -A1 "^VIOLATION\|HARNESS" | head -6
done
