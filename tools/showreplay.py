#!/venv/bin/python
import json, sys, glob
sys.path.insert(0, '/verif')
from vf.gast import grammar_text, tup
for pat in sys.argv[1:]:
    for f in glob.glob(pat):
        d = json.load(open(f)); c = d['case']
        print('==', f, d.get('bucket'))
        if 'rules' in c:
            print(grammar_text([(n, tup(x)) for n, x in c['rules']]).rstrip())
        for k, v in c.items():
            if k != 'rules': print('  ', k, '=', repr(v))
        print('  detail:', json.dumps(d['detail'])[:800])
