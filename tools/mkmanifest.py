#!/opt/veriftools/pyvenv/bin/python
"""Regenerates /verif/MANIFEST.json from the table below and validates it."""
import json
import sys
from pathlib import Path

HOME = Path(__file__).resolve().parent.parent
ALL = [f'C{i:02d}' for i in range(1, 21)]

# id -> (technique, level text, level note, design ref)
REF_NOTE = ('trusts RefPEG (vf/refpeg.py), my independent evaluator written from docs/syntax.rst and docs/ast.rst; where the docs are '
            'silent it raises a U-flag and that aspect is not judged; a defect living only in flagged shapes is not seen')

CHECKS = {
    'C01': (
        'property-based testing: Hypothesis-seeded grammar construction + exhaustive small-scope enumeration, reference oracle RefPEG (accept, consumed length, AST)',
        'Generated-input search over grammars x inputs against an independent reference evaluator: ~4000 random grammars x 6 inputs per quick run '
        '(derived sentences, near misses, token soup), any start rule, consumed length observed through a wrapper rule; plus an EXHAUSTIVE tier: '
        'every expression tree with <= 3 nodes (thorough: <= 4) over 8 leaves, as a rule and reached through a call, x every string over '
        '{a, b, \',\', space} up to length 4 (thorough: 5), ~430k cases per quick run. Exploration with an exhaustive sub-space.',
        REF_NOTE, 'DESIGN.md §3 C01, §2.3'),
    'C02': (
        'property-based differential testing: model.parse vs exec(to_python_sourcecode).Parser().parse on generated grammars x inputs x settings x semantics; ast.parse/compile validity check',
        'Generated grammars (core language with cuts, directives incl. literal-tab regexes, rule parameters, @name+keywords, upper-case and keyword-like rule names, based rules, includes, tokens spelled None/True) x 5 inputs x 2 parse-time settings each, through the wrapper rule, start=<rule> and the default start; equal canonical AST/consumed length or both a parse failure; parseinfo triples compared. Exploration.',
        'the model side is the reference (C01 judges it); failure class/position not compared; CodegenError refusals are skipped and counted', 'DESIGN.md §3 C02'),
    'C03': (
        'property-based testing: specification-first generation of layered left-recursive grammars; two independent oracles (precedence-climbing evaluator, RefPEG with seed growing) + model-vs-generated differential + termination watchdog; small-scope enumeration of all lexeme strings for 13 family grammars',
        'Generated precedence tables printed as grammars (direct, aliased either way with either name order, named, optional-prefixed left recursion, split levels whose operator alternatives are separate rules with cuts and a prefix-sharing postfix operator, twin levels without a rule common to all cycles; right-recursive and unary levels; parentheses) x generated operator/operand strings and near misses, parsed from every level and alias rule; TatSu is judged only where both oracles agree. Exploration with exhaustive sub-spaces (family grammars x all lexeme strings up to 5/7 lexemes).',
        'trusts agreement of two independent evaluators of mine; unlayered mutual recursion only gets the termination oracle (C16)', 'DESIGN.md §3 C03'),
    'C04': (
        'property-based differential testing: default configuration vs memoization off / perlinememos 0.01..8 / prune on-off / trace / colorize / parseinfo, with counting and rejecting (FailedSemantics) semantics',
        'Generated grammars (a third with @nomemo/@nostak rules) wrapped so that the start rule is retried at the same position after backtracking, and left-recursive statement/expression grammars with cuts, x multi-line inputs x 14 setting variants; outcome (AST or failure class) must equal the default; call sets with and without memoization compared. Exploration.',
        'the default configuration is the reference point (C01/C03 judge it); a timeout without memoization is inconclusive, not a violation', 'DESIGN.md §3 C04'),
    'C05': (
        'property-based testing: cut insertion into generated cut-free grammars; reference oracle RefPEG-with-cut + metamorphic (cuts removed) + locality wrapper',
        'Generated grammars with 1-3 inserted cuts x sentences corrupted right after each passed cut; three oracles (reference; cuts are invisible '
        'when no failure follows an executed cut; an outer choice still backtracks), an exhaustive cut-scope template family (inner choice with a cut x group/optional/closure/named/rule/optional-around-closure wrappers x tails x all strings up to 4-5 lexemes), and invariance of every outcome under prune_memos_on_cut / perlinememos. Exploration with an exhaustive sub-space; classes of cut scope are counted in the evidence.',
        REF_NOTE, 'DESIGN.md §3 C05'),
    'C06': (
        'property-based testing: generated grammars x inputs x generated semantics objects; reference oracle RefPEG-with-actions; call-log multiset comparison; exception identity check; model and generated parser',
        'Generated grammars (with rule parameters, @nomemo; 15 % layered left-recursive grammars, 5 % rules whose value is a bare scalar 1/True/1.0) x inputs x semantics {identity, tagging, _default only, mixed, FailedSemantics on a value from the reference trace, raising one of 10 exception classes on such a value}: outcome/AST equal to the reference running the same actions; action calls are a sub-multiset of the memo-free reference\'s with the same support (exact when every rule is @nomemo); a foreign exception reaches the caller as the same object. Exploration.',
        REF_NOTE + '; shapes affected by known findings F-C01-a (open-list rule values) and F-C02-a (generated parser name binding) are not judged', 'DESIGN.md §3 C06'),
    'C07': (
        'property-based differential testing: marked plain-AST parse vs asmodel parse (synthesized classes) vs parse with the generated model module\'s classes, lock-step tree walk; own attribute walk vs children()/parent; counting walkers',
        'Generated grammars with typed rules (unique class names per case, consistent base chains, builtin types, dict-attribute-colliding element names, typed rules inside closures/optionals/named lists) x derived inputs: class name, declared bases, attributes == named elements (or ast == value), builtin conversion; children()/parent agree with an independent attribute walk; DepthFirst/BreadthFirst/PostOrder walkers reach every node; generated-module classes give the same tree; a generated parser called with asmodel=True mirrors its own plain AST. Exploration.',
        'the plain-AST parse (through a marking semantics) is the reference for values; declared-but-unset fields of generated classes may be None', 'DESIGN.md §3 C07'),
    'C08': (
        'property-based testing and coverage-guided fuzzing (atheris/libFuzzer) with a validity oracle: Hypothesis unicode texts and mutated seed sentences against ~25 fixed and generated grammars (str, Buffer, generated parser, parseinfo on/off); mutated grammar texts as compile input; exception-type, position/line-info and rendering predicates; 10 s hang watchdog',
        'Generated texts (weighted alphabet incl. control, non-BMP, unicode digits; mutations and truncations of valid sentences) x grammars built around @int/@uint/@float/@bool/@name, $->, keywords, left recursion, cuts, directives; valid grammar texts with 1-4 syntax-biased edits given to tatsu.compile; generated regular expressions (well formed or not, often nullable, inline flags, look-behinds, huge repeats) in every directive and pattern position, compiled and run; closures/joins whose element and separator can match empty. Every call returns or raises a tatsu.exceptions type; FailedParse: 0<=pos<=len, info agrees with my splitter, str()/render() return; no RecursionError, no hang. An atheris campaign (quick: 4 000 executions, thorough: 4 campaigns, seeded and empty corpora) drives the same oracle with coverage feedback. Exploration; failures bucketed by (type, innermost tatsu frame).',
        'texts containing line separators other than LF/CR/CRLF are not line-checked; hang = 10 s on <= 60 characters (20 s for compile)', 'DESIGN.md §3 C08'),
    'C09': (
        'property-based testing: metamorphic relation over whitespace/comment layouts + reference oracle RefPEG under the effective configuration + layering differential (compile-time < directive < parse-time)',
        'Generated grammars x configurations (whitespace default/regex/none, nameguard, namechars, ignorecase, comments and eol_comments as directives or settings) x sentences in base/varied/adversarial layouts: outcome(varied)==outcome(base); every layout agrees with the reference; each setting given at any subset of the three layers behaves like the single effective value; upper-case start rules; name-character tokens under every namechars setting (process-wide caches are caught by shard-history replay). Exploration.',
        REF_NOTE + '; whitespace/comment patterns are assumed non-nullable; nameguard=False together with namechars is not generated (config.py forces nameguard on)', 'DESIGN.md §3 C09'),
    'C10': (
        'stateful (history-based) differential testing: generated sequences of public API calls executed in a child of a pristine process, each step compared with the same call re-created in another pristine child; model/config immutability invariants; sampled multi-thread runs under a 1e-6 switch interval',
        'Histories of 3-14 calls (compile with name/asmodel/semantics incl. same-class instances/ignorecase/whitespace, sibling calls that differ in one argument, tatsu.parse, model.parse with start and settings, generated parsers reused after failures, to_python_sourcecode/model, gc) over 9 grammars (texts biased to the sentences of each grammar; asmodel on models and generated parsers): every step equals its fresh-process reference; no parse alters the model or a supplied config. 2-8 threads on one shared model equal the sequential results. Exploration.',
        'a child forked from a process that imported tatsu but never called it stands for a fresh interpreter; thread schedules are sampled, not owned', 'DESIGN.md §3 C10'),
    'C11': (
        'property-based testing: generated grammars with an @name rule spliced into choices/closures/lookaheads, keywords in any case; reference oracle RefPEG-with-keywords + collecting-semantics assertion + undecorated-grammar differential + model-vs-generated differential',
        'Generated grammars x keywords (1-3, or 9-33 so that the list spans lines) x ignorecase (directive / parse-time / off) x inputs whose identifiers are drawn from keywords, prefixes, suffixes and case variants: the @name rule never hands a keyword to its action; outcomes agree with the reference, with the undecorated grammar when no keyword was seen, and between model and generated parser. Exploration.',
        REF_NOTE, 'DESIGN.md §3 C11'),
    'C12': (
        'exhaustive enumeration of short strings x offsets against an independent line splitter; property-based parseinfo check against RefPEG trace',
        '(a) every string over {a, space, LF, CR} up to length 6 (quick) / 9 (thorough) x every offset x both input classes, exhaustively, plus '
        'Hypothesis long texts; (b) generated grammars with names/typed rules, @nostak rules and (a third) block + end-of-line comment directives x laid-out sentences with parseinfo=True: every dict AST and node '
        'must carry (rule, pos, endpos) of an invocation in the reference trace that returned it, and the right start line. Exploration with an exhaustive sub-space.',
        'trusts my splitter (LF, CR, CRLF) and RefPEG\'s trace; offset == len(text) only checked for not raising', 'DESIGN.md §3 C12'),
    'C13': (
        'property-based round-trip testing: model -> pretty() -> compile -> structural + behavioural comparison -> pretty() fixpoint; models from compile, JSON reload and g2e (ANTLR) translation; railroads() completion',
        'Generated full-language grammars (special tokens/patterns/constants incl. multi-line and verbose patterns, alerts, meta, $->, directives, keywords, parameters, based rules, rule includes, @override, up to three decorators) and generated ANTLR grammars: the pretty text compiles, keeps rules/params/bases/decorators/directives/keywords, behaves the same on derived sentences and near misses, is a fixpoint, and railroads() completes. Exploration.',
        'parser equality is observed on generated inputs; "consistent track width" is observed as: railroads() completes (the renderer asserts the width of every track it assembles)', 'DESIGN.md §3 C13'),
    'C14': (
        'property-based round-trip testing: model -> {JSON, pickle, generated model source} -> reload -> structural + behavioural comparison; asjson() termination/dumpability on parse results, models and hand-built cyclic structures',
        'C13\'s full-language grammars with loader-sniffing texts (f{..}, backslash-e-[, {..}, @.., __class__), falsy directive values, single keywords and single rules, reloaded through five routes (JSON, pickle, generated model source; JSON and pickle of a model that has already parsed): same rules/directives/keywords and equal outcomes on derived inputs; asjson() of every parse result/model returns within 5 s and json.dumps accepts it; cycles render as references. Exploration.',
        'parser equality is observed on generated inputs', 'DESIGN.md §3 C14'),
    'C15': (
        'property-based differential testing (four parsers): shipped bootstrap rules vs shipped bootstrap model vs compiled _tatsu.ebnf vs parser regenerated from it, on generated, hand-written and mutated grammar texts',
        'Generated full-language grammar texts (with and without rule terminators), ~45 hand-written texts for alternative/deprecated syntax and prefix-of-literal words, the repository\'s grammar files, and 1-3-edit mutations of all of them: same accept/reject by the four parsers and equal grammar models (canonical structure + pretty text) on accept. Exploration.',
        'model equality is structural over public fields plus pretty(); when all four raise the same foreign exception the case is left to C08', 'DESIGN.md §3 C15'),
    'C16': (
        'exhaustive enumeration of small rule graphs + Hypothesis-sampled larger graphs against my own left-call-graph / nullability / cycle analysis; fixed input battery under a recursion limit and watchdog',
        'All 420 one-rule graphs and all 1764 two-rule single-alternative graphs through the text (exhaustive), the 3.26 million two-rule x two-alternative graphs through directly built models (quick: every 150th, thorough: all), all small graphs with positive-closure prefixes, plus sampled 3-rule and 4-6-rule graphs: GrammarError with left recursion off iff a left-call cycle exists; is_lrec/is_memo exact off-cycle; every cycle guarded; battery of 15 inputs from every rule terminates. Exploration with an exhaustive sub-space.',
        'trusts my graph analysis (written from the statement); unbounded recursion is observed as RecursionError at limit 1500 / 10 s alarm on tiny inputs', 'DESIGN.md §3 C16'),
    'C17': (
        'property-based testing / fuzzing with a monitor oracle: generated Python expression strings evaluated through safeeval and through real parses under sys.addaudithook with frame attribution; static dunder/impure-call predicate; positive differential against plain eval; two-step histories',
        'Every builtin name called with plausible arguments, dunder/non-dunder attribute chains, lambdas, comprehensions, walrus, dunder-spelling tricks, nested f-string fields and format specs, names shadowed by AST keys (also called from nested scopes: lambdas, comprehensions, generator expressions), and a safe sub-grammar; ~24k expressions per quick run through the helper and through constants/alerts in real grammars: no file/import/exec/compile/input/os event is attributed to the expression, exit/quit never run, dunder or impure calls are rejected, safe values equal plain eval, rejected text stays text or a TatSu error, names of an earlier parse do not leak. Exploration.',
        'pure builtins are my explicit list; C-level escapes that raise no audit event would be missed; exit/quit are observed through same-named recorders installed before TatSu builds its builtin table', 'DESIGN.md §3 C17'),
    'C18': (
        'model-based testing with a harness-owned schedule: deterministic executor + replaced waiter event drive the real submission/refill loop; exhaustive depth-first enumeration of all schedules for small payload lists, Hypothesis-drawn schedules beyond, sampled real process pools',
        'All payload lists up to length 4 (and a third of length 5) over {ok, captured exception, exception captured through a base class} x 1-2 workers x EVERY completion schedule (which pending future finishes next, one or two at a time), random lists up to 7 payloads x 1-4 workers x random schedules x pickable, and ~100 runs of the public parproc with real process pools and generated sleeps: the multiset of (payload, outcome, exception type, args) equals my plain-loop model and the sequential mode. Exploration with an exhaustive schedule sub-space.',
        'the owned schedule covers the loop logic, not OS scheduling (sampled only); relies on the private stdlib hook concurrent.futures._base._create_and_install_waiters', 'DESIGN.md §3 C18'),
    'C19': (
        'property-based round-trip testing of pack/unpack; stateful (model-based) testing of the queue with a Hypothesis RuleBasedStateMachine and an owned clock; exhaustive crash-point enumeration (every byte offset of the last record) and byte-flip corruption',
        'Recursive JSON payloads biased to the encoding\'s alphabet (runs, tildes, digits, quotes, escapes, class-marker keys): unpack(pack(p)) == p. Histories of send / partial receive / drain / new reader with 1 writer and up to 3 readers against a list model (prefix at all times, equality after a drain). The last record cut at every byte offset, read, completed, read again; one byte flipped: never delivered early, nothing lost, nothing twice. Exploration with an exhaustive crash-offset sub-space per generated record.',
        'packet ids come from a harness-owned monotonic clock (collisions after exactly 0.1 s are outside the domain); an exception on a cut file is tolerated if later reads deliver everything exactly once', 'DESIGN.md §3 C19'),
    'C20': (
        'property-based testing (Hypothesis), reference oracle = builtin format(); repr round trip',
        'Generated-input search: ~50k (text, style, spec, route, colour policy) tuples per quick run compared with the builtin '
        'format() after stripping escapes, plus the repr/from_raw round trip and markup(). Exploration, not proof: '
        'a defect confined to code points or spec shapes the generator does not produce is not seen.',
        'trusts str.__format__ as the meaning of a format spec and Color\'s documented precedence; descape is cross-checked by an independent SGR stripper',
        'DESIGN.md §3 C20'),
}

# families added in the third session (DESIGN.md A.7); appended to the level text
ADDED = {
    'C01': ' Also: rule includes and based rules (chained c < b, d < c; an include of a based rule; a rule based on an including rule) in the grammar text against their documented expansion written out for the reference.',
    'C02': ' Also an EXHAUSTIVE family of scope templates (6 bodies with two differently named parts x 9 wrappers x 6 positions x 10 inputs x {no semantics, tagging}); keyword parameters spelled like Python keywords.',
    'C04': ' A third of the non-left-recursive grammars have two rules whose names differ only in leading/trailing underscores.',
    'C06': ' Semantics objects come in flavours (plain, unhashable like a plain @dataclass, all-equal like a frozen dataclass, falsy); on left-recursive grammars the actions of the leaders may return plain lists (a list must stay one operand as a seed).',
    'C07': ' Also scalar-valued typed rules (1 / 1.0 / True reaching one node class; leaf comparison is type-aware) and based rules whose base and derived rule both define names.',
    'C08': ' Grammars whose constants interpolate input text (which may itself hold an interpolation), constants over values that may be missing, indented multi-line constants; quote and escaped-backslash atoms in the regex family.',
    'C09': ' In 40 % of the comment configurations a token is a prefix of the comment opener.',
    'C10': ' Steps with BuilderConfig objects: one the caller does not keep (two calls in a row, judged against two independent fresh processes), one the caller keeps and hands to several calls, some with typedefs (also: the object is not altered); two semantics objects back to back; dataclass semantics (frozen-equal, unhashable).',
    'C11': ' ignorecase may be switched OFF at parse time over an @@ignorecase grammar; one generated-parser object serves all parses of a case while the setting changes between them.',
    'C12': ' (a) also gives the same source name to an edited text of the same length (exhaustive tier); (b) has a family of pass-through rules in an alternative that fails later (values served from the memos).',
    'C13': ' Patterns with slashes and both quotes, escaped backslashes before slashes, the empty pattern; literal-like string parameters; padded and relatively indented constants; long keyword lists with blanks and hyphens; the left/right associative joins.',
    'C14': ' Parses from other rules (start=) and the number of parseinfo entries under @@parseinfo are compared across the reload routes too; models compiled with a semantics module (inside a package / top level) or object are pickled and reloaded.',
    'C15': ' Hand-written texts include empty-valued directives and the associative joins.',
    'C17': ' A run-time monitor reports dunder attribute lookups made on the AST values by expression code (str.format field names); families for frame walking (gi_frame.f_back...f_globals), identifiers spelled with NFKC-equivalent characters, AST values beyond Latin-1, safe expressions through a real parse, and texts first judged where their names are unbound.',
    'C18': ' The real-pool tier includes user exception classes that do not survive pickling, a run after an earlier interrupted run (fault sequence), and VisualPayload + path-taking function + deep recursion.',
    'C19': ' Payload strings include every character str.splitlines() breaks at; histories include overlapping receive() iterations on one reader.',
}

ADDED4 = {
    'C01': ' @override rules against their documented expansion (plain, twice, then based on, then included).',
    'C02': ' Repeated rule inheritance (child < bs2 < bs) and both spellings of the name decorator (@name, @isname).',
    'C03': ' Rule names that are Python keywords/builtins (random + two exhaustive families); a level whose prefix-operator alternative precedes its recursive ones (shape prefalt: growth inside growth).',
    'C04': ' Parses also start at the grammar\'s own first rule, which may be @nostak (empty rule stack under trace).',
    'C06': ' A further flavour keeps data attributes named like rules next to _default.',
    'C07': ' One walker object walks the same trees twice.',
    'C09': ' Word-led comment syntaxes (REM ..., dnl ... lnd) beside the punctuation-led ones.',
    'C10': ' A semantics object on which no action is found followed by one with actions (pairs repeated up to 6 x); ignorecase=False at parse time with keyword case variants; node types named like the object-model machinery\'s own classes (SynthNode, Node).',
    'C12': ' (a) also asks a clone moved to each offset for lineinfo()/lineat()/poscol() without an explicit offset.',
    'C13': ' Path-like parameters at later positions and as keyword values; other renderings of the same model (lean, railroads, str) requested before pretty(); constants with backticks; the pattern ".", literal TAB and line breaks in non-verbose patterns.',
    'C14': ' Thread tier: one model / one parse result converted to JSON by 4 threads at once (switch interval 1 us), each result compared with the lone conversion.',
    'C17': ' Format methods taken from a literal and called elsewhere (comprehension variable over an AST key, key= of a pure builtin); frame walks taken hop by hop from rebound AST keys.',
    'C18': ' One exception class whose instances differ in picklability (portable one first); TypeError and a user subclass among the raised exceptions.',
    'C20': ' The repr round trip of the text is judged for every text without control characters (category Cc), braces, colons, backslashes and quotes - not only for printable text.',
}
for _k, _v in ADDED4.items():
    ADDED[_k] = ADDED.get(_k, '') + _v

NOT_YET = 'check not built yet in this session; see DESIGN.md §3 for the intended oracle'


def main():
    checks = []
    for pid in ALL:
        if pid not in CHECKS:
            continue
        tech, text, note, ref = CHECKS[pid]
        checks.append(dict(
            property_id=pid,
            quick_cmd=f'./check {pid} quick',
            thorough_cmd=f'./check {pid} thorough',
            evidence_file=f'evidence/{pid}.json',
            replay_cmd_template=f'./check {pid} quick --replay {{path}}',
            engine='vf',
            level_claimed=dict(category='exploration', text=text + ADDED.get(pid, ''), design_ref=ref + (', A.7' if pid in ADDED else '') + (', A.8' if pid in ADDED4 else '')),
            level_note=note,
            technique=tech,
        ))
    na = [dict(property_id=p, reason=NOT_YET) for p in ALL if p not in CHECKS]
    man = dict(
        version=1,
        setup_cmd='./setup.sh',
        hooks=dict(
            guard='TATSU_VERIF',
            enable='no source hooks: checks observe the public API, exceptions, sys.addaudithook and harness-side '
                   'patches of the standard library only; ./check exports TATSU_VERIF=1 for uniformity',
            baseline_off_cmd='./tools/baseline.py',
            source_commits=[],
            add_only=True,
        ),
        engines=[dict(name='vf', path='vf/', serves_properties=sorted(CHECKS),
                      kind_free_text='Hypothesis-driven property-based testing with reference / differential / metamorphic '
                                     'oracles, exhaustive small-scope enumeration, sharded over 16 processes; collect-then-shrink; '
                                     'replay files; known-findings file')],
        checks=checks,
        notes='fix: commits in /repo are listed in known_findings.json with status "fixed". '
              'VF_REPO=<dir> ./check ... runs a check against a scratch worktree (sensitivity experiments only).',
        not_applicable=na,
    )
    (HOME / 'MANIFEST.json').write_text(json.dumps(man, indent=1) + '\n')
    try:
        import jsonschema
        jsonschema.validate(man, json.load(open('/root/.vp/MANIFEST.schema.json')))
        print('MANIFEST.json valid;', len(checks), 'checks,', len(na), 'not_applicable')
    except ImportError:
        print('jsonschema not importable here; wrote MANIFEST.json unvalidated')


if __name__ == '__main__':
    sys.exit(main())
