#!/opt/veriftools/pyvenv/bin/python
"""prints the markdown table of seeded changes (DESIGN.md A.6) from seeded/*/*/meta.json"""
import glob, json, os
rows = []
for f in sorted(glob.glob(os.path.join(os.path.dirname(__file__), '..', 'seeded', '*', '*', 'meta.json'))):
    m = json.load(open(f))
    pid, name = f.split(os.sep)[-3], f.split(os.sep)[-2]
    c = m.get('confirmed', {})
    k = m.get('check', {})
    title = (m.get('title') or m.get('what_it_breaks') or '')[:110].replace('|', '/')
    files = ', '.join(x.split('/')[-1] for x in m.get('files_touched', []))[:60]
    ok = c.get('demo_on_clean_exit') == 0 and c.get('demo_on_mutant_exit') == 1 and '100%' in str(c.get('test_suite_tail', ''))
    rows.append(f"| {pid} {name} | {title} | {files} | {'yes' if ok else 'NO: ' + json.dumps(c)[:80]} | {'detected (' + str(k.get('violations')) + ')' if k.get('detected') else 'MISSED'} |")
print('| change | what it does | files | confirmed (demo clean/mutant, suite) | quick check |')
print('|---|---|---|---|---|')
print('\n'.join(rows))
