#!/opt/veriftools/pyvenv/bin/python
"""prints the markdown table of seeded changes (seeded/TABLE.md, referred to by DESIGN.md A.5) from seeded/*/*/meta.json"""
import glob, json, os
rows = []
n = det0 = detnow = 0
for f in sorted(glob.glob(os.path.join(os.path.dirname(__file__), '..', 'seeded', '*', '*', 'meta.json'))):
    m = json.load(open(f))
    pid, name = f.split(os.sep)[-3], f.split(os.sep)[-2]
    c = m.get('confirmed', {})
    k = m.get('check', {})
    title = (m.get('title') or m.get('what_it_breaks') or '')[:120].replace('|', '/')
    files = ', '.join(x.split('/')[-1] for x in m.get('files_touched', []))[:50]
    ok = c.get('demo_on_clean_exit') == 0 and c.get('demo_on_mutant_exit') == 1 and '100%' in str(c.get('test_suite_tail', ''))
    first = 'detected' if k.get('detected') else 'missed'
    later = []
    for key, r in sorted(m.items()):
        if key.startswith('recheck') and isinstance(r, dict):
            if not r.get('applied', True):
                later.append(f"{r.get('check', pid)}: patch no longer applies")
            else:
                later.append(f"{r.get('check', pid)}: {'detected' if r.get('detected') else 'MISSED'} @{r.get('verif_commit')}")
    note = m.get('note', '')
    now = k.get('detected') if not later else any('detected' in x for x in later)
    n += 1
    det0 += bool(k.get('detected'))
    detnow += bool(now)
    rows.append(f"| {pid} {name} | {title} | {files} | {'yes' if ok else 'NO: ' + json.dumps(c)[:60]} | {first} | {'; '.join(later) or '-'} | {note} |")
print(f'{n} seeded changes; caught by the quick check when first run: {det0}; caught now (latest recorded run): {detnow}\n')
print('| change | what it does | files | confirmed (demo clean/mutant, suite) | first run of the quick check | later runs (after strengthening) | note |')
print('|---|---|---|---|---|---|---|')
print('\n'.join(rows))
