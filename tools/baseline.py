#!/venv/bin/python
"""Run the repository's pinned baseline (guard OFF) and compare with /root/.vp/BASELINE.json.
exit 0 iff every stable_pass test passes."""
import json, os, subprocess, sys, tempfile, xml.etree.ElementTree as ET
base = json.load(open('/root/.vp/BASELINE.json'))
env = dict(os.environ); env.pop('TATSU_VERIF', None)
with tempfile.TemporaryDirectory() as d:
    jx = os.path.join(d, 'j.xml')
    cmd = base['cmd'].replace('<file>', jx)
    r = subprocess.run(cmd, shell=True, env=env, stdout=subprocess.PIPE, stderr=subprocess.STDOUT, text=True)
    passed = set()
    for tc in ET.parse(jx).getroot().iter('testcase'):
        if not any(c.tag in ('failure', 'error', 'skipped') for c in tc):
            passed.add(f"{tc.get('classname')}::{tc.get('name')}")
missing = [t for t in base['stable_pass'] if t not in passed]
print(f"passed={len(passed)} baseline={len(base['stable_pass'])} baseline_missing={len(missing)}")
for m in missing: print("MISSING", m)
sys.exit(1 if missing else 0)
