#!/bin/bash
# tools/confirm_mutant.sh <srcdir with patch.diff demo.py meta.json> <ID> <name>
# Confirms a seeded change in a scratch worktree (demo passes clean / fails mutated / test-suite passes),
# runs the property's quick check against it, and stores everything under /verif/seeded/<ID>/<name>/.
src="$1"; id="$2"; name="$3"
dst=/verif/seeded/$id/$name
mkdir -p "$dst"
wt=$(mktemp -d /tmp/cmut.XXXXXX)
git -C /repo worktree add -q --detach "$wt" HEAD
cleanup() { git -C /repo worktree remove --force "$wt" >/dev/null 2>&1; rm -rf "$wt"; }
trap cleanup EXIT
cd "$wt"
demo_clean=$(PYTHONHASHSEED=0 PYTHONPATH="$wt" PYTHONDONTWRITEBYTECODE=1 timeout 300 /venv/bin/python "$src/demo.py" >/dev/null 2>&1; echo $?)
if ! git -C "$wt" apply "$src/patch.diff"; then echo "$id/$name: PATCH DOES NOT APPLY"; exit 1; fi
demo_mut=$(PYTHONHASHSEED=0 PYTHONPATH="$wt" PYTHONDONTWRITEBYTECODE=1 timeout 300 /venv/bin/python "$src/demo.py" >/dev/null 2>&1; echo $?)
tests=$(PYTHONPATH="$wt" PYTHONDONTWRITEBYTECODE=1 /venv/bin/python -m pytest -q -p no:cacheprovider --timeout=900 -q --deselect tests/cli_test.py --deselect tests/cling_test.py 2>&1 | tail -1)
out=$(VF_SHRINK=0 VF_REPO="$wt" /verif/check "$id" quick 2>&1)
rc=$?
nviol=$(echo "$out" | grep -c "^VIOLATION")
first=$(echo "$out" | grep -A1 "^VIOLATION" | head -2 | tail -1 | cut -c1-300)
cp "$src/patch.diff" "$src/demo.py" "$dst/"
/venv/bin/python - "$src/meta.json" "$dst/meta.json" "$demo_clean" "$demo_mut" "$tests" "$rc" "$nviol" "$first" "$id" <<'PY'
import json, sys
src, dst, dc, dm, tests, rc, nviol, first, pid = sys.argv[1:]
try: m = json.load(open(src))
except Exception: m = {}
m.update(property=pid, confirmed=dict(demo_on_clean_exit=int(dc), demo_on_mutant_exit=int(dm), test_suite_tail=tests,
         ran=['demo.py on clean worktree', 'git apply patch.diff', 'demo.py on mutant', 'pytest (cli/cling deselected: need uv)', f'VF_REPO=<worktree> ./check {pid} quick']),
         check=dict(cmd=f'./check {pid} quick', exit=int(rc), violations=int(nviol), first=first, detected=int(rc) == 1))
json.dump(m, open(dst, 'w'), indent=1)
print(f"{pid} {dst}: demo clean={dc} mutant={dm} tests='{tests}' check_exit={rc} violations={nviol}")
PY
